"""C15 — sampling stops exactly per the stopping rule; finished runs are idempotent."""
import logging
import math
import os
import pickle
import shutil
import tempfile
from fractions import Fraction
from unittest import mock

import numpy as np

from . import core
from . import c15_gen

PROPS_MODULE = "NessaiVerif.Props.C15"
MANIFEST = dict(
    text="Lean theorems about both sampling loops, stated over guard definitions that a Python-ast translator regenerates from "
         "nestedsampler.py / importancesampler.py on every run (while test, break tests and their position before/after the body, "
         "finalise guard, finalised short-circuits, reached_tolerance any/all, alias table, configure_stopping_criterion error chain, "
         "configure_iterations defaults): for every body function, tolerance, cap/minimum and every trajectory the standard loop "
         "leaves after exactly the FIRST iteration with condition <= tolerance or (after a body) iteration >= max_iteration, and the "
         "importance loop after the first iteration with (any/all of criterion_i <= tolerance_i and iteration >= min_iteration) or the "
         "cap (standard_stops_first, ins_stops_first, reached_any_all, *_terminates); finalise runs iff the condition is met and "
         "increments/appends every remaining live point exactly once with live counts n..1 (finalise_iff, finalise_consumes_once, "
         "ins_finalise_consumes_once); a finalised sampler re-entered returns the identical state with zero iterations "
         "(finalised_entry_returns_stored, rerun_idempotent, ins_rerun_idempotent, final_checkpoint_holds_flag; the short-circuit returns the same expressions as the "
         "normal exit: rerun_returns_same_expressions) with the complementary theorem that a run stopped only by the "
         "cap is not finalised and iterates once more on re-entry (rerun_after_cap_iterates, rerun_idempotent_fails_without); alias resolution is total and unambiguous, unknown names are rejected "
         "(alias_resolution_total, unknown_rejected, configure_errors + the silent-drop counter-example) and the resolved list is the "
         "user's list in the user's order, so the k-th tolerance belongs to the k-th named criterion (resolved_in_user_order, from "
         "the translated loop nesting); ESS equals Kish's formula, "
         "the evidence error the unbiased variance of the mean, ratio/log_dZ/Z_err their logarithmic forms over the reals. "
         "Tie: (1) the real nested_sampling_loop/finalise/configure_* of both samplers driven on scripted condition/criterion "
         "trajectories (expensive parts patched on real instances) against the Lean driver, exact; (2) the six criteria of the real "
         "compute_stopping_criterion on small rational weight sets against the exact Rat model; (3) complete real runs (standard sampler "
         "with the rejection proposal, importance sampler with exactly-known substitute flows): recorded trajectories replayed through "
         "the model, per-iteration criteria recomputed exactly from the stored samples, plus the oracle (first-crossing from the "
         "recorded values and the run history, definitions recomputed in float, finalise consumption, second call and "
         "resume-from-final-checkpoint give equal results with an unchanged likelihood counter).",
    note="NaN conditions/criteria are outside the model (the loops then stop without meeting the rule). The loop body is a parameter: "
         "what consume_sample / a level update compute is C01/C02/C03's subject; here only that it counts the iteration and leaves the "
         "configuration alone. log/exp/sqrt steps from the linear-domain criteria to the compared floats are monotone maps proved over "
         "the reals; float rounding at the tolerance boundary is not modelled (scripted values are dyadic, so comparisons there are exact).",
    technique="Lean 4 proof (first-exit characterisation of a generic loop by induction, any linear order / ordered field) + ast translator "
              "for the guards + scripted and real-run correspondence",
    ref="5/C15")

TOL = 1e-9
K_STD_CAP = "NestedSampler.nested_sampling_loop:rerun-after-max_iteration"
K_INS_RET = "ImportanceNestedSampler.nested_sampling_loop:rerun-returns-unit-hypercube-samples"


# ================================================================================================ gen
def gen(ctx):
    try:
        path, changed, d = c15_gen.generate(core.REPO, core.LEAN)
        ctx.extra["translator"] = {"file": str(path.relative_to(core.VERIF)), "rewritten": changed,
                                   "sha256": {c15_gen.NS: d["sha_ns"], c15_gen.INS: d["sha_ins"]}}
    except c15_gen.Tx as e:
        ctx.broken("translator: " + str(e), "harness/c15_gen.py could not map the current source; Gen/Loops.lean left as it was")
    except (OSError, SyntaxError) as e:
        ctx.broken("translator: cannot read/parse the source: " + str(e))
    ctx.trust("harness/c15_gen.py (Python ast → Gen/Loops.lean: comparison/boolean operators, break positions, any/all, literal tables); "
              "every generated definition is also run against the real method by the correspondence")


# ================================================================================================ formatting
def ext(x):
    x = float(x)
    if math.isinf(x):
        return "inf" if x > 0 else "-inf"
    f = Fraction(x)
    return str(f.numerator) if f.denominator == 1 else f"{f.numerator}/{f.denominator}"


def fr(q):
    q = Fraction(q)
    return str(q.numerator) if q.denominator == 1 else f"{q.numerator}/{q.denominator}"


def lst(xs, f=str):
    return "[" + ",".join(f(x) for x in xs) + "]"


def opt_lst(xs):
    return "none" if xs is None else lst(xs)


def cap_s(c):
    return "inf" if c is None else str(int(c))


def close(a, b, tol=TOL):
    a, b = float(a), float(b)
    if a == b:
        return True
    if math.isnan(a) or math.isnan(b) or math.isinf(a) or math.isinf(b):
        return False
    return abs(a - b) <= tol * max(1.0, abs(b))


def same_struct(a, b):
    """equality of structured arrays, NaN == NaN (default values of unused fields are NaN)"""
    a, b = np.asarray(a), np.asarray(b)
    if a.dtype != b.dtype or a.shape != b.shape:
        return False
    if a.dtype.names is None:
        return bool(np.array_equal(a, b, equal_nan=True))
    for f in a.dtype.names:
        if a[f].dtype.kind == "f":
            if not np.array_equal(a[f], b[f], equal_nan=True):
                return False
        elif not np.array_equal(a[f], b[f]):
            return False
    return True


class Exhausted(Exception):
    pass


GRID = [-math.inf, -2.0, -0.5, 0.0, 0.125, 0.5, 1.0, 2.5, 8.0, math.inf]


# ================================================================================================ scripted rigs
def _quiet(debug=False):
    """nessai's logger silenced — or, for the runs that ask for it, at DEBUG with the records thrown away: what a run does must
    not depend on the log level (seeded change C15-hA: a debug message consumed the generator of criterion checks)"""
    lg = logging.getLogger("nessai")
    if debug:
        if not any(isinstance(h, logging.NullHandler) for h in lg.handlers):
            lg.addHandler(logging.NullHandler())
        lg.propagate = False
        logging.disable(logging.NOTSET)
        lg.setLevel(logging.DEBUG)
    else:
        lg.setLevel(logging.CRITICAL)


def _mini_model():
    from nessai.model import Model

    class M(Model):
        def __init__(self):
            self.names = ["x", "y"]
            self.bounds = {"x": [-1.0, 3000.0], "y": [-1.0, 1.0]}

        def log_prior(self, x):
            return np.log(self.in_bounds(x), dtype="float")

        def log_likelihood(self, x):
            return np.array(x["x"], dtype=float)

        def to_unit_hypercube(self, x):
            return x.copy()

        def from_unit_hypercube(self, x):
            return x.copy()

    return M()


def _points(ids):
    from nessai.livepoint import numpy_array_to_live_points
    a = numpy_array_to_live_points(np.stack([np.array(ids, dtype=float), np.zeros(len(ids))], axis=1).reshape(-1, 2), ["x", "y"])
    a["logL"] = np.array(ids, dtype=float)
    a["logP"] = 0.0
    return a


class StdRig:
    """a real NestedSampler whose expensive collaborators are replaced; `nested_sampling_loop`, `finalise`,
    `configure_max_iteration` and the evidence integrator are the real ones"""

    def __init__(self, tmp):
        from nessai.samplers.nestedsampler import NestedSampler
        _quiet()
        self.s = s = NestedSampler(_mini_model(), nlive=10, output=os.path.join(tmp, "std"), plot=False, checkpointing=False,
                                   seed=0, maximum_uninformed=np.inf, uninformed_acceptance_threshold=0.0)
        self.calls = 0
        self.traj = []
        s.initialise = lambda live_points=True: None
        s.check_state = lambda *a, **k: None
        s.update_state = lambda force=False: None
        s.periodically_log_state = lambda: None
        s.check_insertion_indices = lambda **k: None
        s.checkpoint = lambda **k: None
        s.check_resume = lambda: None
        s.consume_sample = self._consume

    def _consume(self):
        s = self.s
        if not self.traj:
            raise Exhausted()
        worst = s.live_points[0].copy() if len(s.live_points) else None
        if worst is not None:
            s.nested_samples.append(worst)
        s.condition = self.traj.pop(0)
        s.iteration += 1
        new = _points([1000 + self.calls])
        s.live_points = np.concatenate([s.live_points[1:], new])
        self.calls += 1

    def snap(self):
        s = self.s
        live = None if s.live_points is None else [int(v) for v in s.live_points["logL"]]
        nested = [int(p["logL"]) for p in s.nested_samples]
        incs = [(int(l), int(n)) for l, n in zip(s.state.logLs[1:], s.state.nlive)]
        return (bool(s.finalised), int(s.iteration), float(s.condition), live, nested, incs, self.calls)

    def run(self, c):
        from nessai.evidence import _NSIntegralState
        s = self.s
        s.finalised, s.iteration, s.condition, s.tolerance = c["fin"], c["it"], c["c0"], c["tol"]
        s.configure_max_iteration(c["cap"])
        s.nlive = c["nlive"]
        s.live_points = None if c["live"] is None else _points(c["live"])
        s.nested_samples = list(_points(c["nested"]))
        s.state = _NSIntegralState(max(c["nlive"], 1), track_gradients=False)
        s.initialised, s.prior_sampling, s.resumed, s._close_pool = True, False, False, False
        self.calls, self.traj = 0, list(c["traj"])
        try:
            s.nested_sampling_loop()
        except Exhausted:
            return "running", None, None
        except Exception as e:  # noqa: the real loop raised on a scripted state
            return f"raised={type(e).__name__}", None, None
        s1 = self.snap()
        k = self.calls
        try:
            s.nested_sampling_loop()
            s2 = self.snap()
            k2, same = self.calls - k, s2 == s1
            tail = f"k2={k2} same={int(same)}"
        except Exhausted:
            s2, tail = None, "k2=running"
        except Exception as e:  # noqa
            s2, tail = None, f"k2=raised:{type(e).__name__}"
        fin, it, cond, live, nested, incs, _ = s1
        line = (f"k={k} it={it} fin={int(fin)} cond={ext(cond)} live={opt_lst(live)} nested={lst(nested)} "
                f"incs={lst(incs, lambda q: f'{q[0]}:{q[1]}')} {tail}")
        return line, s1, s2

    @staticmethod
    def line(c):
        return (f"loop std {int(c['fin'])} {c['it']} {ext(c['c0'])} {ext(c['tol'])} {cap_s(c['cap'])} {c['nlive']} "
                f"{opt_lst(c['live'])} {lst(c['nested'])} {lst(c['traj'], ext)}")


class InsRig:
    """a real ImportanceNestedSampler: `nested_sampling_loop`, `reached_tolerance`, `finalise` (sampler and
    OrderedSamples), `configure_*`, `compute_stopping_criterion` are the real ones"""

    def __init__(self, tmp):
        from nessai.samplers.importancesampler import ImportanceNestedSampler
        _quiet()
        self.cls = ImportanceNestedSampler
        self.s = s = ImportanceNestedSampler(_mini_model(), nlive=10, output=os.path.join(tmp, "ins"), plot=False,
                                             checkpointing=False, seed=0, min_samples=5)
        self.real_compute = s.compute_stopping_criterion
        self.calls = 0
        self.traj = []
        for name in ("initialise", "_compute_gradient", "update_log_likelihood_threshold", "add_new_proposal",
                     "add_and_update_points", "update_evidence", "log_state", "update_history", "produce_plots"):
            setattr(s, name, lambda *a, **k: None)
        s.determine_log_likelihood_threshold = lambda *a, **k: 0.0
        s.remove_samples = lambda: 0
        s.add_new_proposal_weight = lambda *a, **k: None
        s.compute_importance = lambda **k: {}
        s.checkpoint = lambda **k: None
        s.compute_stopping_criterion = self._compute
        s.history = {"logZ": [0.0]}

    def _compute(self):
        if not self.traj:
            raise Exhausted()
        self.calls += 1
        return list(self.traj.pop(0))

    def _store(self, live, nested):
        from nessai.samplers.importancesampler import OrderedSamples
        ids = sorted((live or []) + nested)
        o = OrderedSamples(strict_threshold=False, replace_all=False, save_log_q=False)
        a = _points(ids)
        a["logW"] = 0.0
        a["logL"] = np.array(ids, dtype=float) * 1e-3      # keep exp() finite in the evidence of finalise
        o.samples = a
        o.log_q = np.zeros((len(ids), 1))
        pos = {v: i for i, v in enumerate(ids)}
        o.nested_samples_indices = np.array(sorted(pos[v] for v in nested), dtype=int)
        o.live_points_indices = None if live is None else np.array(sorted(pos[v] for v in live), dtype=int)
        self.ids = ids
        o.state.update_evidence(a)
        return o

    def snap(self):
        s = self.s
        o = s._ordered_samples
        live = None if o.live_points_indices is None else [self.ids[i] for i in o.live_points_indices]
        nested = [self.ids[i] for i in o.nested_samples_indices]
        return (bool(s.finalised), int(s.iteration), [float(v) for v in s.criterion], live, nested, self.calls)

    def run(self, c):
        s = self.s
        s.finalised, s.iteration = c["fin"], c["it"]
        s.tolerance, s._stop_any = [float(t) for t in c["tol"]], c["any"]
        s.criterion = [float(v) for v in c["crit"]]
        s.configure_iterations(c["min"], c["cap"])
        s.n_update = None
        s._train_final_flow, s.bootstrap = False, False
        s.draw_iid_live = c.get("iid", True)
        s.training_samples = self._store(c["live"], c["nested"])
        s.iid_samples = self._store(c["live"], c["nested"]) if s.draw_iid_live else None
        before = list(c["nested"])
        self.calls, self.traj = 0, [list(v) for v in c["traj"]]
        try:
            s.nested_sampling_loop()
        except Exhausted:
            return "running", None, None
        except Exception as e:  # noqa
            return f"raised={type(e).__name__}", None, None
        s1 = self.snap()
        k = self.calls
        try:
            s.nested_sampling_loop()
            s2 = self.snap()
            tail = f"k2={self.calls - k} same={int(s2 == s1)}"
        except Exhausted:
            s2, tail = None, "k2=running"
        except Exception as e:  # noqa
            s2, tail = None, f"k2=raised:{type(e).__name__}"
        fin, it, crit, live, nested, _ = s1
        bs = set(before)
        canon = [x for x in nested if x in bs] + [x for x in nested if x not in bs]
        line = f"k={k} it={it} fin={int(fin)} crit={lst(crit, ext)} live={opt_lst(live)} nested={lst(canon)} {tail}"
        return line, s1, s2

    @staticmethod
    def line(c):
        return (f"loop ins {int(c['fin'])} {c['it']} {lst(c['crit'], ext)} {lst(c['tol'], ext)} {int(c['any'])} "
                f"{cap_s(-1 if c['min'] is None else c['min'])} {cap_s(c['cap'])} {opt_lst(c['live'])} {lst(c['nested'])} "
                f"{lst(c['traj'], lambda v: lst(v, ext))}")


# ------------------------------------------------------------------------------------------------ generators
def gen_std_case(rng, boundary=False):
    n = rng.choice([1, 1, 2, 3, 3, 5])
    fin = rng.random() < 0.1
    it0 = rng.choice([0, 0, 0, 0, 3, 7])
    tol = rng.choice(GRID[1:] if not boundary else GRID)
    cap = rng.choice([None, None, None, 1, 2, 3, 5, it0, it0 + 1, it0 + 2, 0, -1] if not boundary
                     else [it0, it0 + 1, 0, 1, None])
    L = rng.randint(0, 8)
    c0 = math.inf if rng.random() < 0.7 else rng.choice(GRID)
    # mostly decreasing trajectories that cross the tolerance, with exact ties
    traj, cur = [], 8.0
    for _ in range(L):
        r = rng.random()
        if r < 0.25:
            cur = tol if not math.isinf(tol) else rng.choice(GRID)
        elif r < 0.75:
            cur = rng.choice([g for g in GRID if g <= cur] or GRID)
        else:
            cur = rng.choice(GRID)
        traj.append(cur)
    live = list(range(1, n + 1))
    if fin:
        live = None
        if rng.random() < 0.8:
            c0 = rng.choice([g for g in GRID if g <= tol])
    nested = rng.choice([[], [], [500, 501]])
    nlive = n if rng.random() < 0.8 else n + 2
    return dict(kind="std", fin=fin, it=it0, c0=c0, tol=tol, cap=cap, nlive=nlive, live=live, nested=nested, traj=traj)


def gen_ins_case(rng, boundary=False):
    m = rng.choice([1, 1, 2, 2, 3])
    any_ = rng.random() < 0.5
    fin = rng.random() < 0.1
    it0 = rng.choice([0, 0, 0, 0, 2, 5])
    tol = [rng.choice(GRID) if boundary else rng.choice(GRID[1:-1]) for _ in range(m)]
    mn = rng.choice([None, None, 0, 1, 2, 3, it0 + 2, -1])
    cap = rng.choice([None, None, 1, 2, 4, 6, it0, it0 + 1, it0 + 3, 0])
    crit0 = [math.inf] * m if rng.random() < 0.75 else [rng.choice(GRID) for _ in range(m)]
    L = rng.randint(0, 7)
    traj = []
    for _ in range(L):
        v = []
        for j in range(m):
            r = rng.random()
            v.append(tol[j] if r < 0.3 else rng.choice(GRID))
        traj.append(v)
    nl = rng.choice([0, 1, 2, 4])
    nn = rng.choice([2, 3])
    ids = rng.sample(range(1, 60), nl + nn)
    live, nested = sorted(ids[:nl]), sorted(ids[nl:])
    if fin:
        nested, live = sorted(ids), None
    return dict(kind="ins", fin=fin, it=it0, crit=crit0, tol=tol, any=any_, min=mn, cap=cap, live=live, nested=nested,
                traj=traj, iid=rng.random() < 0.7)


# ------------------------------------------------------------------------------------------------ scripted oracles
def first_stop_std(c):
    """first index at which the rule of the property is met (None: not within the trajectory)"""
    conds = [c["c0"]] + list(c["traj"])
    cap = math.inf if c["cap"] is None else c["cap"]
    for j, v in enumerate(conds):
        if v <= c["tol"] or c["it"] + j >= cap:
            return j
    return None


def oracle_std(ctx, c, line, s1, s2):
    if line.startswith("raised="):
        ctx.oracle_fail("NestedSampler.nested_sampling_loop:raised", f"nested_sampling_loop {line} on a valid state", c)
        return
    if c["fin"]:
        # a finished sampler: nothing may happen
        if s1 is None or s1[6] != 0 or s1[4] != c["nested"] or s1[5]:
            ctx.oracle_fail("NestedSampler.nested_sampling_loop:rerun-after-finalise",
                            f"finalised sampler iterated or changed its samples on re-entry: {line}", c)
        return
    j = first_stop_std(c)
    if j is None:
        if s1 is not None:
            ctx.oracle_fail("NestedSampler.nested_sampling_loop:stop",
                            f"loop stopped although the rule is never met on the trajectory: {line}", c)
        return
    cap = math.inf if c["cap"] is None else c["cap"]
    at_cap_on_entry = c["it"] >= cap and not c["c0"] <= c["tol"]
    key = K_STD_CAP if at_cap_on_entry else "NestedSampler.nested_sampling_loop:stop"
    if s1 is None or s1[6] != j:
        ctx.oracle_fail(key, f"stopped after {None if s1 is None else s1[6]} iterations, the rule is first met after {j}: {line}", c)
        return
    fin, it, cond, live, nested, incs, k = s1
    met = cond <= c["tol"]
    # what the scripted consume_sample did to the live set (the oracle's own bookkeeping)
    w_live, w_nested = list(c["live"]), list(c["nested"])
    for i in range(k):
        if w_live:
            w_nested.append(w_live.pop(0))
        w_live.append(1000 + i)
    if met:
        if not fin or live is not None or nested != w_nested + w_live:
            ctx.oracle_fail("NestedSampler.finalise:consume-once",
                            f"remaining live points {w_live} not appended exactly once / not finalised: {line}", c)
        if c["nlive"] == len(w_live) and [q[1] for q in incs] != list(range(len(w_live), 0, -1)):
            ctx.oracle_fail("NestedSampler.finalise:live-counts", f"live counts at finalise are not n..1: {line}", c)
        if [q[0] for q in incs] != w_live:
            ctx.oracle_fail("NestedSampler.finalise:consume-once", f"evidence increments at finalise differ from the live points: {line}", c)
        if s2 is None or s2 != s1:
            ctx.oracle_fail("NestedSampler.nested_sampling_loop:rerun-after-finalise",
                            f"second call after finalise changed the state / iterated: {line}", c)
    else:
        if fin or incs or nested != w_nested or live != w_live:
            ctx.oracle_fail("NestedSampler.nested_sampling_loop:finalise-guard", f"finalised / live points consumed with the condition above tolerance: {line}", c)
        if s2 is None or s2 != s1:
            ctx.oracle_fail(K_STD_CAP, f"second call after stopping at max_iteration iterated again: {line}", c)


def met_ins(any_, crit, tol):
    flags = [a <= b for a, b in zip(crit, tol)]
    return any(flags) if any_ else all(flags)


def first_stop_ins(c):
    seq = [c["crit"]] + list(c["traj"])
    cap = math.inf if c["cap"] is None else c["cap"]
    mn = -1 if c["min"] is None else c["min"]
    for j, v in enumerate(seq):
        if (met_ins(c["any"], v, c["tol"]) and c["it"] + j >= mn) or (c["it"] + j >= cap):
            return j
    return None


def oracle_ins(ctx, c, line, s1, s2):
    if line.startswith("raised="):
        ctx.oracle_fail("ImportanceNestedSampler.nested_sampling_loop:raised", f"nested_sampling_loop {line} on a valid state", c)
        return
    if c["fin"]:
        if s1 is None or s1[5] != 0 or sorted(s1[4]) != sorted(c["nested"]):
            ctx.oracle_fail("ImportanceNestedSampler.nested_sampling_loop:rerun-after-finalise",
                            f"finalised sampler iterated or changed its samples on re-entry: {line}", c)
        return
    cap = math.inf if c["cap"] is None else c["cap"]
    if c["it"] >= cap and not (met_ins(c["any"], c["crit"], c["tol"]) and c["it"] >= (-1 if c["min"] is None else c["min"])):
        return      # entering an unfinished sampler at/after its cap: only the model comparison applies
    j = first_stop_ins(c)
    if j is None:
        if s1 is not None:
            ctx.oracle_fail("ImportanceNestedSampler.nested_sampling_loop:stop", f"loop stopped although the rule is never met: {line}", c)
        return
    if s1 is None or s1[5] != j:
        ctx.oracle_fail("ImportanceNestedSampler.nested_sampling_loop:stop",
                        f"stopped after {None if s1 is None else s1[5]} iterations, the rule is first met after {j}: {line}", c)
        return
    fin, it, crit, live, nested, k = s1
    if not fin or live is not None or sorted(nested) != sorted((c["live"] or []) + c["nested"]):
        ctx.oracle_fail("ImportanceNestedSampler.finalise:consume-once",
                        f"live points not moved to the nested samples exactly once / not finalised: {line}", c)
    if s2 is None or s2 != s1:
        ctx.oracle_fail("ImportanceNestedSampler.nested_sampling_loop:rerun-after-finalise",
                        f"second call after finalise changed the state / iterated: {line}", c)


# ------------------------------------------------------------------------------------------------ scripted correspondence
def scripted(ctx, tmp, n_std, n_ins, boundary_frac=0.25):
    std, ins = StdRig(tmp), InsRig(tmp)
    lines, impls, cases = [], [], []
    corpus = load_corpus()
    todo = [c for c in corpus if c.get("kind") == "std"] + [
        gen_std_case(ctx.rng, boundary=(i < n_std * boundary_frac)) for i in range(n_std)]
    for c in todo:
        line, s1, s2 = std.run(c)
        oracle_std(ctx, c, line, s1, s2)
        lines.append(StdRig.line(c)); impls.append(line); cases.append(c)
        kind = ("std:running" if s1 is None else "std:entry-finalised" if c["fin"] else
                "std:tol-stop" if s1[0] else "std:cap-stop")
        ctx.case(("std", repr(c)), s1 is not None and (s1[6] >= 1 or bool(s1[5])), c, kind=kind)
    todo = [c for c in corpus if c.get("kind") == "ins"] + [
        gen_ins_case(ctx.rng, boundary=(i < n_ins * boundary_frac)) for i in range(n_ins)]
    for c in todo:
        line, s1, s2 = ins.run(c)
        oracle_ins(ctx, c, line, s1, s2)
        lines.append(InsRig.line(c)); impls.append(line); cases.append(c)
        kind = ("ins:running" if s1 is None else "ins:entry-finalised" if c["fin"] else
                f"ins:{'any' if c['any'] else 'all'}:{len(c['tol'])}crit")
        ctx.case(("ins", repr(c)), s1 is not None and s1[5] >= 1, c, kind=kind)
    ctx.diff_model(lines, impls, cases, what="scripted loop: model != real nested_sampling_loop")
    return ins


def load_corpus():
    import json
    p = core.VERIF / "corpus" / "C15" / "cases.json"
    if p.exists():
        return json.loads(p.read_text())
    return []


# ------------------------------------------------------------------------------------------------ configuration tie
def config_tie(ctx, ins, n):
    s = ins.s
    from nessai.samplers.nestedsampler import NestedSampler
    table = dict(s.stopping_criterion_aliases)
    known = [a for al in table.values() for a in al]
    junk = ["", "Ratio", "ESS", "ess ", "dZ", "log_dz", "z_err", "no_such_criterion", "ratio_al", "evidence"]
    junk = [j for j in junk if j and " " not in j and j not in known]
    lines, impls, cases = [], [], []

    def run_cfg(names, tol, check):
        try:
            s.configure_stopping_criterion(names, tol, check)
            return f"ok {lst(s.stopping_criterion)} any={int(s._stop_any)}"
        except ValueError as e:
            msg = str(e)
            if msg.startswith("Unknown stopping criterion"):
                return "err=unknown"
            if msg.startswith("Number of stopping criteria"):
                return "err=length"
            if msg.startswith("check_criteria must be"):
                return "err=check"
            return "err=other:" + msg

    todo = []
    for a in known + junk:                                  # every alias and some unknown names, alone
        for check in ("any", "all", "some"):
            todo.append((a, 0.5, check))
            todo.append(([a], [0.5], check))
            todo.append(([a], [0.5, 1.0], check))
    for _ in range(n):
        k = ctx.rng.choice([1, 2, 2, 3, 4])
        names = [ctx.rng.choice(known if ctx.rng.random() < 0.8 else junk) for _ in range(k)]
        nt = ctx.rng.choice([k, k, k, k - 1, k + 1, 1])
        tol = [ctx.rng.choice([0.0, 0.5, 1.0, 2.0]) for _ in range(max(nt, 0))]
        if nt == 1 and ctx.rng.random() < 0.5:
            tol = tol[0]
        todo.append((names, tol, ctx.rng.choice(["any", "all", "all", "any", "ANY", "both"])))
    for names, tol, check in todo:
        out = run_cfg(names, tol, check)
        nl = [names] if isinstance(names, str) else names
        nt = len(tol) if isinstance(tol, list) else 1
        c = dict(kind="cfg", names=names, tol=tol, check=check)
        lines.append(f"loop cfg {lst(nl)} {nt} {check}"); impls.append(out); cases.append(c)
        ctx.case(("cfg", repr(c)), True, c, kind="cfg:" + out.split(" ")[0].split(":")[0])
        # oracle: every alias alone resolves to its canonical name; a lone unknown name is an error
        if len(nl) == 1 and nt == 1 and check in ("any", "all"):
            if nl[0] in known:
                canon = [k for k, al in table.items() if nl[0] in al]
                if out != f"ok {lst(canon[:1])} any={int(check == 'any')}" or len(canon) != 1:
                    ctx.oracle_fail("ImportanceNestedSampler.configure_stopping_criterion:alias",
                                    f"alias {nl[0]!r} resolved to {out}, table says {canon}", c)
            elif out != "err=unknown":
                ctx.oracle_fail("ImportanceNestedSampler.configure_stopping_criterion:unknown",
                                f"unknown criterion {nl[0]!r} was not rejected: {out}", c)
        # oracle: known names, one tolerance each -> the k-th tolerance is compared with the k-th name's criterion
        if all(n_ in known for n_ in nl) and nt == len(nl) and check in ("any", "all"):
            want_pairs = [(next(k for k, al in table.items() if n_ in al), float(v))
                          for n_, v in zip(nl, tol if isinstance(tol, list) else [tol])]
            got_pairs = list(zip(s.stopping_criterion, s.tolerance)) if out.startswith("ok ") else out
            if got_pairs != want_pairs:
                ctx.oracle_fail("ImportanceNestedSampler.configure_stopping_criterion:pairing",
                                f"user configured {list(zip(nl, tol if isinstance(tol, list) else [tol]))} = pairs {want_pairs}; "
                                f"the sampler will compare {got_pairs}", c)
    for mn in (None, -3, -1, 0, 1, 2, 7):
        for mx in (None, -1, 0, 1, 5, 10 ** 6):
            s.configure_iterations(mn, mx)
            out = f"min={int(s.min_iteration)} max={'inf' if math.isinf(s.max_iteration) else int(s.max_iteration)}"
            c = dict(kind="cfgit", min=mn, max=mx)
            lines.append(f"loop cfgit {'none' if mn is None else mn} {'none' if mx is None else mx}")
            impls.append(out); cases.append(c)
            ctx.case(("cfgit", mn, mx), True, kind="cfgit")
            if (mn is None and s.min_iteration != -1) or (mx is None and s.max_iteration != math.inf) or \
                    (mn is not None and s.min_iteration != mn) or (mx is not None and s.max_iteration != mx):
                ctx.oracle_fail("ImportanceNestedSampler.configure_iterations", f"({mn},{mx}) -> {out}", c)
    dummy = mock.MagicMock()
    for mx in (None, -1, 0, 1, 5, 10 ** 6):
        NestedSampler.configure_max_iteration(dummy, mx)
        out = f"max={'inf' if math.isinf(dummy.max_iteration) else int(dummy.max_iteration)}"
        lines.append(f"loop cfgmax {'none' if mx is None else mx}"); impls.append(out); cases.append(dict(kind="cfgmax", max=mx))
        ctx.case(("cfgmax", mx), True, kind="cfgmax")
    # reached_tolerance
    for _ in range(n):
        m = ctx.rng.choice([1, 2, 3])
        crit = [ctx.rng.choice(GRID) for _ in range(m)]
        tol = [c_ if ctx.rng.random() < 0.3 else ctx.rng.choice(GRID) for c_ in crit]
        any_ = ctx.rng.random() < 0.5
        s.criterion, s.tolerance, s._stop_any = crit, tol, any_
        got = bool(s.reached_tolerance)
        c = dict(kind="reached", crit=crit, tol=tol, any=any_)
        lines.append(f"loop reached {int(any_)} {lst(crit, ext)} {lst(tol, ext)}"); impls.append(str(int(got))); cases.append(c)
        ctx.case(("reached", repr(c)), True, c, kind="reached:" + ("any" if any_ else "all"))
        if got != met_ins(any_, crit, tol):
            ctx.oracle_fail("ImportanceNestedSampler.reached_tolerance", f"{c} -> {got}", c)
    ctx.diff_model(lines, impls, cases, what="configuration: model != real configure_* / reached_tolerance")


# ------------------------------------------------------------------------------------------------ criteria, exact
CANON = ["ratio", "ratio_ns", "Z_err", "log_dZ", "ess", "fractional_error"]


def parse_crit(out):
    d = {}
    for part in out.split(" "):
        k, v = part.split("=", 1)
        d[k] = Fraction(v)
    return d


def expected_from_exact(d, prev_logZ, iteration):
    """the six compared floats from the exact linear-domain quantities of the model"""
    Z = d["Z"]
    logZ = math.log(Z.numerator) - math.log(Z.denominator)
    rel = math.sqrt(float(d["rel2"])) if d["rel2"] >= 0 else math.nan
    return {
        "ratio": math.log(float(d["ratio"])) if d["ratio"] > 0 else -math.inf,
        "ratio_ns": math.log(float(d["ratio_ns"])) if d["ratio_ns"] > 0 else -math.inf,
        "Z_err": math.exp(rel), "fractional_error": rel,
        "ess": float(d["ess"]), "kish": float(d["kish"]),
        "log_dZ": abs(logZ - prev_logZ) if iteration > 0 else math.inf,
        "logZ": logZ,
    }


def crit_sets(ctx, ins, n):
    """the real compute_stopping_criterion on small sets with rational weights vs the exact model"""
    from nessai.samplers.importancesampler import OrderedSamples
    s = ins.s
    s.compute_stopping_criterion = ins.real_compute
    lines, got, cases = [], [], []
    try:
        for _ in range(n):
            m = ctx.rng.randint(2, 9)
            ws = [Fraction(ctx.rng.randint(1, 64), ctx.rng.choice([1, 2, 4, 8, 64])) for _ in range(m)]
            if ctx.rng.random() < 0.1:
                ws = [ws[0]] * m
            logL = [0.25 * i - 1.0 for i in range(m)]
            a = _points(list(range(m)))
            a["logL"] = logL
            a["logW"] = [math.log(w.numerator) - math.log(w.denominator) - l for w, l in zip(ws, logL)]
            j, lv = ctx.rng.randint(0, m - 1), ctx.rng.randint(1, m - 1)
            o = OrderedSamples(strict_threshold=False, replace_all=False, save_log_q=False)
            o.samples, o.log_q = a, np.zeros((m, 1))
            o.nested_samples_indices, o.live_points_indices = np.arange(lv), np.arange(lv, m)
            o.log_likelihood_threshold = logL[j]
            o.update_evidence()
            s.draw_iid_live, s.iid_samples = True, o
            prev = ctx.rng.choice([-1.0, 0.0, 0.5, 2.0])
            it = ctx.rng.choice([0, 1, 3])
            s.iteration, s.history = it, {"logZ": [prev]}
            s.stopping_criterion = list(CANON)
            vals = s.compute_stopping_criterion()
            c = dict(kind="crit", w=[fr(w) for w in ws], thr_index=j, n_nested=lv, prev=prev, it=it)
            lines.append(f"loop crit {lst(ws, fr)} {lst([int(i >= j) for i in range(m)])} {lst([int(i >= lv) for i in range(m)])}")
            got.append(dict(zip(CANON, [float(v) for v in vals]), logZ=float(o.state.logZ)))
            cases.append(c)
    finally:
        s.compute_stopping_criterion = ins._compute
    outs = ctx.model(lines)
    for line, out, g, c in zip(lines, outs, got, cases):
        d = parse_crit(out)
        e = expected_from_exact(d, c["prev"], c["it"])
        bad = [k for k in CANON + ["logZ"] if not close(g[k], e[k])]
        if d["ess"] != d["kish"]:
            bad.append("ess!=kish")
        ctx.case(("crit", line), True, c, kind="crit:exact-set")
        if bad:
            ctx.disagree("criteria: real compute_stopping_criterion differs from the exact model on " + ",".join(bad),
                         {"line": line, "model": out, "impl": g, "expected": e, "case": c})
            # the exact value is by definition the standard one: this is also an oracle failure of the real code
            for k in bad:
                if k in CANON:
                    ctx.oracle_fail(f"ImportanceNestedSampler.compute_stopping_criterion:{k}",
                                    f"{k} = {g[k]!r}, standard definition gives {e[k]!r}", c)


# ================================================================================================ real runs
def gauss_model(dims=2):
    from nessai.model import Model

    class G(Model):
        def __init__(self):
            self.names = [f"x{i}" for i in range(dims)]
            self.bounds = {n: [-5.0, 5.0] for n in self.names}

        def log_prior(self, x):
            return np.log(self.in_bounds(x), dtype="float") - dims * math.log(10.0)

        def log_likelihood(self, x):
            out = np.zeros(x.size)
            for n in self.names:
                out = out - 0.5 * x[n] ** 2
            return out

    return G()


def run_std_real(ctx, cfg, tmp):
    """complete run of the real NestedSampler (rejection proposal only), recorded per iteration; second call; resume"""
    from nessai.samplers.nestedsampler import NestedSampler
    _quiet()
    out = tempfile.mkdtemp(dir=tmp)
    model = gauss_model()
    np.random.seed(cfg["seed"])
    s = NestedSampler(model, nlive=cfg["nlive"], output=out, seed=cfg["seed"], plot=False, stopping=cfg["tol"],
                      max_iteration=cfg["cap"], maximum_uninformed=np.inf, uninformed_acceptance_threshold=0.0,
                      checkpointing=True, resume_file="resume.pkl", checkpoint_interval=10 ** 9)
    rec, pre_fin = [], {}
    orig_consume, orig_fin = NestedSampler.consume_sample, NestedSampler.finalise

    limit = 8 * cfg["nlive"]

    def consume(self_):
        itb, lmaxb = self_.iteration, self_.logLmax
        orig_consume(self_)
        rec.append(dict(it_before=int(itb), logLmax_before=float(lmaxb), cond=float(self_.condition),
                        logZ=float(self_.state.logZ), it=int(self_.iteration)))
        r = rec[-1]
        want = np.logaddexp(r["logZ"], r["logLmax_before"] - r["it_before"] / float(cfg["nlive"])) - r["logZ"]
        if len(rec) > limit or not close(r["cond"], want):
            raise Exhausted()

    def finalise(self_):
        pre_fin["live"] = self_.live_points.copy()
        pre_fin["n_nested"] = len(self_.nested_samples)
        pre_fin["n_inc"] = len(self_.state.nlive)
        pre_fin["calls"] = pre_fin.get("calls", 0) + 1
        orig_fin(self_)

    c = dict(kind="std-run", **cfg)
    with mock.patch.object(NestedSampler, "consume_sample", consume), mock.patch.object(NestedSampler, "finalise", finalise):
        try:
            logZ1, ns1 = s.nested_sampling_loop()
        except Exhausted:
            # runaway: report the first recorded value that is not the remaining-evidence fraction, else the non-termination
            for r in rec:
                want = np.logaddexp(r["logZ"], r["logLmax_before"] - r["it_before"] / float(cfg["nlive"])) - r["logZ"]
                if not close(r["cond"], want):
                    ctx.oracle_fail("NestedSampler.consume_sample:condition",
                                    f"iteration {r['it']}: condition {r['cond']!r} is not log(1 + Lmax*X/Z) = {want!r}", dict(c, record=r))
                    break
            ctx.oracle_fail("NestedSampler.nested_sampling_loop:stop",
                            f"still sampling after {len(rec)} iterations (nlive={cfg['nlive']}, tolerance={cfg['tol']}, cap={cfg['cap']}); "
                            f"last conditions {[r['cond'] for r in rec[-3:]]}", c)
            shutil.rmtree(out, ignore_errors=True)
            return None
        except Exception as e:  # noqa: the real run failed
            ctx.oracle_fail("NestedSampler.nested_sampling_loop:raised",
                            f"complete run failed with {type(e).__name__}: {e} after {len(rec)} iterations", c)
            shutil.rmtree(out, ignore_errors=True)
            return None
        K = len(rec)
        ev1, it1 = model.likelihood_evaluations, s.iteration
        ns1 = ns1.copy()
        hist_it, hist_dz = list(s.history["iterations"]), [float(v) for v in s.history["dlogZ"]]
        fin1, cond1 = bool(s.finalised), float(s.condition)
        state_nlive, state_logL = list(s.state.nlive), list(s.state.logLs)
        nested_after = np.array(s.nested_samples)
        live_after = s.live_points
        # ---- second call
        exc2 = None
        try:
            logZ2, ns2 = s.nested_sampling_loop()
        except Exception as e:  # noqa
            exc2, logZ2, ns2 = f"{type(e).__name__}: {e}", None, np.zeros(0)
        K2 = len(rec) - K
        ev2 = model.likelihood_evaluations
    tol, cap, nlive = cfg["tol"], math.inf if cfg["cap"] is None else cfg["cap"], cfg["nlive"]
    # ---- oracle: the compared value is the remaining-evidence fraction
    for r in rec[:K]:
        want = np.logaddexp(r["logZ"], r["logLmax_before"] - r["it_before"] / float(nlive)) - r["logZ"]
        if not close(r["cond"], want):
            ctx.oracle_fail("NestedSampler.consume_sample:condition",
                            f"iteration {r['it']}: condition {r['cond']!r} is not log(1 + Lmax*X/Z) = {want!r}", dict(c, record=r))
            break
    # ---- oracle: first crossing
    conds = [math.inf] + [r["cond"] for r in rec[:K]]
    early = [j for j in range(K) if conds[j] <= tol or (j >= 1 and j >= cap)]
    if early:
        ctx.oracle_fail("NestedSampler.nested_sampling_loop:stop",
                        f"kept sampling although the rule was met after {early[0]} iterations (stopped after {K})",
                        dict(c, conditions=conds[max(0, early[0] - 2):early[0] + 2]))
    if not (conds[K] <= tol or K >= cap):
        ctx.oracle_fail("NestedSampler.nested_sampling_loop:stop",
                        f"stopped after {K} iterations with condition {conds[K]!r} > tolerance {tol} and cap {cap} not reached", c)
    # ---- oracle: the history reports the compared values
    byit = {r["it"]: r["cond"] for r in rec[:K]}
    for i_, dz in zip(hist_it, hist_dz):
        if i_ in byit and byit[i_] != dz:
            ctx.oracle_fail("NestedSampler.update_history:dlogZ",
                            f"history dlogZ at iteration {i_} is {dz!r}, the loop compared {byit[i_]!r}", c)
            break
    if fin1 and (not hist_dz or hist_dz[-1] != conds[K]):
        ctx.oracle_fail("NestedSampler.update_history:dlogZ", "final condition is not the last history entry", c)
    # ---- oracle: finalise
    met = conds[K] <= tol
    if met:
        n = nlive
        live = pre_fin.get("live")
        ok = (fin1 and pre_fin.get("calls") == 1 and live is not None and live_after is None and len(live) == n
              and len(nested_after) == K + n and same_struct(nested_after[K:], live)
              and state_nlive[pre_fin["n_inc"]:] == list(range(n, 0, -1))
              and state_logL[1 + pre_fin["n_inc"]:] == [float(v) for v in live["logL"]])
        if not ok:
            ctx.oracle_fail("NestedSampler.finalise:consume-once",
                            f"remaining live points not consumed exactly once with counts n..1 (finalised={fin1}, nested={len(nested_after)}, "
                            f"iterations={K}, nlive={n}, counts tail={state_nlive[-3:]})", c)
    elif fin1:
        ctx.oracle_fail("NestedSampler.nested_sampling_loop:finalise-guard", "finalised with the condition above the tolerance", c)
    # ---- oracle: second call
    same = (exc2 is None and K2 == 0 and ev2 == ev1 and s.iteration == it1 and logZ2 == logZ1 and len(ns2) == len(ns1) and same_struct(ns2, ns1))
    if not same:
        ctx.oracle_fail("NestedSampler.nested_sampling_loop:rerun-after-finalise" if met else K_STD_CAP,
                        f"second call of nested_sampling_loop{'' if exc2 is None else ' raised ' + exc2}: {K2} further iterations, evaluations {ev1}->{ev2}, "
                        f"logZ {logZ1!r}->{logZ2!r}, nested samples {len(ns1)}->{len(ns2)}", c)
    # ---- oracle: resume from the final checkpoint
    res = "n/a"
    if met and exc2 is None:
        model2 = gauss_model()
        exc = None
        try:
            with mock.patch.object(NestedSampler, "consume_sample", consume):
                s3 = NestedSampler.resume(os.path.join(out, "resume.pkl"), model2, flow_config={})
                s3.initialise()
                logZ3, ns3 = s3.nested_sampling_loop()
        except Exception as e:  # noqa
            exc = f"{type(e).__name__}: {e}"
        K3 = len(rec) - K - K2
        res = dict(K3=K3, ev=model2.likelihood_evaluations)
        if exc is not None:
            ctx.oracle_fail("NestedSampler.nested_sampling_loop:resume-after-finalise",
                            f"resuming from the final checkpoint and calling nested_sampling_loop raised {exc}", c)
        elif not (K3 == 0 and model2.likelihood_evaluations == ev2 and logZ3 == logZ2 and same_struct(ns3, ns2) and s3.finalised):
            ctx.oracle_fail("NestedSampler.nested_sampling_loop:resume-after-finalise",
                            f"resume from the final checkpoint: {K3} further iterations, evaluations {ev2}->{model2.likelihood_evaluations}, "
                            f"logZ {logZ2!r}->{logZ3!r}", c)
        else:
            # "returns the same results": EVERY entry of the result dictionary (diagnostics included), wall-clock entries apart
            try:
                diff = result_diff(s.get_result_dictionary(), s3.get_result_dictionary())
            except Exception as e:  # noqa
                diff = [f"get_result_dictionary raised {type(e).__name__}: {e}"]
            if diff:
                ctx.oracle_fail("NestedSampler.nested_sampling_loop:resume-after-finalise:result-dictionary",
                                f"the result dictionary of a sampler resumed from the final checkpoint differs from the finished "
                                f"sampler's in {diff[:6]}", c)
    # ---- model: replay the recorded trajectory
    traj = [r["cond"] for r in rec]
    mc = dict(fin=False, it=0, c0=math.inf, tol=tol, cap=cfg["cap"], nlive=3, live=[1, 2, 3], nested=[], traj=traj)
    impl = f"k={K} fin={int(fin1)} k2={K2} same={int(K2 == 0)}"
    shutil.rmtree(out, ignore_errors=True)
    ctx.traces += 1
    ctx.case(("std-run", repr(cfg)), True, dict(c, iterations=K, finalised=fin1, second_call_iterations=K2, resume=res),
             kind="std-run:" + ("tol" if met else "cap"))
    return StdRig.line(mc), impl, c


def result_diff(a, b, path=""):
    """keys under which two result dictionaries differ (entries measured with the wall clock are skipped)"""
    out = []
    if isinstance(a, dict) and isinstance(b, dict):
        for k in sorted(set(a) | set(b), key=str):
            if "time" in str(k).lower():
                continue
            if k not in a or k not in b:
                out.append(f"{path}{k}: missing on one side")
            else:
                out += result_diff(a[k], b[k], f"{path}{k}/")
        return out
    try:
        if isinstance(a, np.ndarray) or isinstance(b, np.ndarray):
            aa, bb = np.asarray(a), np.asarray(b)
            if aa.dtype.names:
                same = aa.dtype == bb.dtype and aa.shape == bb.shape and all(
                    np.array_equal(aa[n], bb[n], equal_nan=aa[n].dtype.kind == "f") for n in aa.dtype.names)
            else:
                same = aa.shape == bb.shape and np.array_equal(aa, bb, equal_nan=aa.dtype.kind == "f")
        elif isinstance(a, float) and isinstance(b, float) and math.isnan(a) and math.isnan(b):
            same = True
        elif isinstance(a, (list, tuple)) and isinstance(b, (list, tuple)) and len(a) == len(b):
            return [d for i, (x, y) in enumerate(zip(a, b)) for d in result_diff(x, y, f"{path}{i}/")]
        else:
            same = type(a) is type(b) and a == b
            if not isinstance(same, bool):
                same = bool(np.all(same))
    except Exception:  # noqa
        same = False
    return [] if same else [f"{path.rstrip('/')}: {str(a)[:40]!r} -> {str(b)[:40]!r}"]


def _pick(out, keys):
    d = dict(p.split("=", 1) for p in out.split(" ") if "=" in p)
    return " ".join(f"{k}={d.get(k)}" for k in keys)


def ins_midrun_resume_test(ctx, tmp, seed=3, kill_at=3):
    """the stopping criteria of a run KILLED BETWEEN LEVELS and resumed from the periodic checkpoint: the first criteria vector the
    resumed loop compares must be the one the uninterrupted run would have compared at that level — in particular
    log_dZ = |ln Z_k - ln Z_(k-1)| with the evidence of the level BEFORE the checkpoint — and history keeps one entry per iteration
    (seeded change C15-iA: the periodic checkpoint was written after `iteration += 1` but before `update_history()`, so the
    restored history was one entry short and log_dZ compared with ln Z_(k-2))."""
    import torch
    from .c03 import FakeFlows, make_model
    from nessai.samplers.importancesampler import ImportanceNestedSampler
    _quiet()
    out = tempfile.mkdtemp(dir=tmp)
    dims = 2
    np.random.seed(seed)
    torch.manual_seed(seed)
    c = dict(kind="ins-midrun-resume", seed=seed, kill_after_iteration=kill_at)
    rec = {"first": {}, "resumed": []}
    orig_compute, orig_ckpt = ImportanceNestedSampler.compute_stopping_criterion, ImportanceNestedSampler.checkpoint

    def compute(self_):
        cond = orig_compute(self_)
        row = dict(it=int(self_.iteration), logZ=float(self_.state.logZ), log_dZ=float(self_.log_dZ), n_hist=len(self_.history["logZ"]))
        (rec["resumed"].append(row) if rec.get("phase") == "resumed" else rec["first"].__setitem__(row["it"], row))
        return cond

    def checkpoint(self_, *a, **k):
        r = orig_ckpt(self_, *a, **k)
        f = os.path.join(out, "ckpt.pkl")
        if k.get("periodic") and int(self_.iteration) == kill_at and "copied" not in rec and os.path.exists(f):
            shutil.copy(f, os.path.join(out, "mid.pkl"))        # what a process killed right after this checkpoint leaves behind
            rec["copied"] = True
        return r

    try:
        with FakeFlows(dims, True, None), mock.patch.object(ImportanceNestedSampler, "compute_stopping_criterion", compute), \
                mock.patch.object(ImportanceNestedSampler, "checkpoint", checkpoint):
            s = ImportanceNestedSampler(
                make_model(dims, seed), nlive=60, output=out, seed=seed, plot=False, checkpointing=True, checkpoint_on_iteration=True,
                checkpoint_interval=1, min_samples=20, min_remove=1, reparameterisation="logit", resume_file="ckpt.pkl",
                stopping_criterion="log_dZ", tolerance=0.0, min_iteration=kill_at + 3, max_iteration=kill_at + 3)
            s.nested_sampling_loop()
            if "copied" not in rec:
                ctx.case(("ins-midrun-resume", seed), False, c, kind="ins-midrun-resume:no-checkpoint")
                return
            rec["phase"] = "resumed"
            with open(os.path.join(out, "mid.pkl"), "rb") as f:
                pk = pickle.load(f)
            s3 = ImportanceNestedSampler.resume_from_pickled_sampler(pk, make_model(dims, seed))
            it0 = int(s3.iteration)
            s3.nested_sampling_loop()
        rows = rec["resumed"]
        if not rows:
            ctx.case(("ins-midrun-resume", seed), False, c, kind="ins-midrun-resume:nothing-after-resume")
            return
        prev = rec["first"].get(rows[0]["it"] - 1, {}).get("logZ")
        for r_ in rows:
            if prev is not None and not close(r_["log_dZ"], abs(r_["logZ"] - prev), 1e-9):
                ctx.oracle_fail("ImportanceNestedSampler:resume-from-periodic-checkpoint:log_dZ",
                                f"resumed at iteration {it0}: at level {r_['it']} the loop compared log_dZ = {r_['log_dZ']!r}; "
                                f"|ln Z_{r_['it']} - ln Z_{r_['it'] - 1}| = {abs(r_['logZ'] - prev)!r}", {**c, "rows": rows})
                break
            if r_["n_hist"] != r_["it"]:
                ctx.oracle_fail("ImportanceNestedSampler:resume-from-periodic-checkpoint:history-length",
                                f"resumed at iteration {it0}: at level {r_['it']} history holds {r_['n_hist']} evidence entries", {**c, "rows": rows})
                break
            prev = r_["logZ"]
        ctx.case(("ins-midrun-resume", seed, it0, len(rows)), True, c, kind="ins-midrun-resume")
    except Exception as e:  # noqa
        ctx.oracle_fail("ImportanceNestedSampler:resume-from-periodic-checkpoint:raised", f"{type(e).__name__}: {e}", c)
    finally:
        shutil.rmtree(out, ignore_errors=True)


def run_ins_real(ctx, cfg, tmp):
    """complete run of the real ImportanceNestedSampler with exactly-known substitute flows (harness.c03)"""
    import torch
    from .c03 import FakeFlows, make_model
    from nessai.samplers.importancesampler import ImportanceNestedSampler, OrderedSamples
    _quiet(debug=cfg.get("debug_log", False))
    out = tempfile.mkdtemp(dir=tmp)
    seed, dims = cfg["seed"], 2
    np.random.seed(seed)
    torch.manual_seed(seed)
    model = make_model(dims, seed, lcut=cfg.get("lcut", False), loffset=cfg.get("offset", 0.0))
    snaps, pre_fin = [], {}
    orig_compute, orig_osfin = ImportanceNestedSampler.compute_stopping_criterion, OrderedSamples.finalise

    def compute(self_):
        cond = orig_compute(self_)
        o = self_._ordered_samples
        snaps.append(dict(
            it=int(self_.iteration), cond=[float(v) for v in cond], attrs={k: float(getattr(self_, k)) for k in CANON},
            logL=o.samples["logL"].copy(), logW=o.samples["logW"].copy(), live=o.live_points_indices.copy(),
            nested=o.nested_samples_indices.copy(), thr=float(o.log_likelihood_threshold),
            prev_logZ=float(self_.history["logZ"][-1]) if self_.iteration > 0 else None, logZ=float(self_.state.logZ)))
        return cond

    def osfin(self_):
        pre_fin.setdefault("stores", []).append(
            (self_, None if self_.live_points_indices is None else self_.live_points_indices.copy(),
             self_.nested_samples_indices.copy(), len(self_.samples)))
        orig_osfin(self_)

    c = dict(kind="ins-run", **cfg)
    with FakeFlows(dims, True, None):
        s = ImportanceNestedSampler(
            model, nlive=cfg["nlive"], output=out, seed=seed, plot=False, checkpointing=cfg.get("checkpointing", True), checkpoint_on_iteration=True,
            checkpoint_interval=1, min_samples=20, min_remove=1, reparameterisation="logit", resume_file="ckpt.pkl",
            stopping_criterion=cfg["criterion"], tolerance=cfg["tol"], check_criteria=cfg["check"],
            min_iteration=cfg["min"], max_iteration=cfg["cap"], draw_iid_live=cfg.get("iid", True))
        with mock.patch.object(ImportanceNestedSampler, "compute_stopping_criterion", compute), \
                mock.patch.object(OrderedSamples, "finalise", osfin):
            try:
                logZ1, samples1 = s.nested_sampling_loop()
            except Exception as e:  # noqa: the real run failed
                ctx.oracle_fail("ImportanceNestedSampler.nested_sampling_loop:raised",
                                f"complete run failed with {type(e).__name__}: {e} after {len(snaps)} iterations", c)
                shutil.rmtree(out, ignore_errors=True)
                return None
            K = len(snaps)
            samples1 = samples1.copy()
            ev1, it1 = model.likelihood_evaluations, s.iteration
            hist = {k: [float(v) for v in vals] for k, vals in s.history["stopping_criteria"].items()}
            names, tols, any_ = list(s.stopping_criterion), list(s.tolerance), bool(s._stop_any)
            mn, cap = s.min_iteration, s.max_iteration
            fin1 = bool(s.finalised)
            exc2 = None
            try:
                logZ2, samples2 = s.nested_sampling_loop()
            except Exception as e:  # noqa
                exc2, logZ2, samples2 = f"{type(e).__name__}: {e}", None, np.zeros(0)
            K2 = len(snaps) - K
            ev2 = model.likelihood_evaluations
            # resume from the final checkpoint
            resume_exc = None
            try:
                with open(os.path.join(out, "ckpt.pkl"), "rb") as f:
                    pk = pickle.load(f)
                model2 = make_model(dims, seed, loffset=cfg.get("offset", 0.0))
                s3 = ImportanceNestedSampler.resume_from_pickled_sampler(pk, model2)
                fin3_entry = bool(s3.finalised)
                logZ3, samples3 = s3.nested_sampling_loop()
                fin3, ev3, s3_samples = bool(s3.finalised), model2.likelihood_evaluations, s3.samples
            except Exception as e:  # noqa: the real code failed while resuming a finished run
                resume_exc = f"{type(e).__name__}: {e}"
            K3 = len(snaps) - K - K2
    # ---- oracle: criteria values = the returned vector = the history
    lines, exp_rows = [], []
    for sn in snaps[:K]:
        if sn["cond"] != [sn["attrs"][n] for n in names]:
            ctx.oracle_fail("ImportanceNestedSampler.compute_stopping_criterion:vector",
                            f"iteration {sn['it']}: returned {sn['cond']} is not the configured criteria {names} = {[sn['attrs'][n] for n in names]}", c)
        for k in CANON:
            hv = hist[k][sn["it"]] if sn["it"] < len(hist[k]) else None
            if hv is None or not (hv == sn["attrs"][k] or (math.isnan(hv) and math.isnan(sn["attrs"][k]))):
                ctx.oracle_fail("ImportanceNestedSampler.update_history:stopping_criteria",
                                f"history[{k}][{sn['it']}] = {hv!r} but the loop compared {sn['attrs'][k]!r}", c)
        # standard definitions recomputed from the stored samples (float, linear domain, long double)
        lw = (sn["logL"] + sn["logW"]).astype(np.longdouble)
        shift = lw.max()
        w = np.exp(lw - shift)
        n = len(w)
        Z = w.sum() / n
        above = sn["logL"] >= sn["thr"]
        rel = np.sqrt(((w - Z) ** 2).sum() / (n * (n - 1))) / Z
        logZ = float(np.log(Z) + shift)
        want = {
            "ess": float(w.sum() ** 2 / (w ** 2).sum()),
            "ratio": float(np.log(w[above].sum() / above.sum()) - np.log(Z)),
            "ratio_ns": float(np.log(w[sn["live"]].sum() / len(sn["live"])) - np.log(w[sn["nested"]].sum() / len(sn["nested"])))
            if len(sn["nested"]) and len(sn["live"]) else None,
            "Z_err": float(np.exp(rel)), "fractional_error": float(rel),
            "log_dZ": abs(logZ - sn["prev_logZ"]) if sn["prev_logZ"] is not None else math.inf,
        }
        for k, v in want.items():
            if v is not None and not close(sn["attrs"][k], v, 1e-8):
                ctx.oracle_fail(f"ImportanceNestedSampler.compute_stopping_criterion:{k}",
                                f"iteration {sn['it']}: {k} = {sn['attrs'][k]!r}, standard definition on the stored samples gives {v!r}", c)
        # the same through the exact model (weights as the exact rationals of the stored floats)
        # (with a likelihood offset the weights are handed to the exact model relative to their maximum: every criterion is
        #  invariant under a common factor; log_dZ is compared after the same shift)
        sn["shift"] = float(shift) if cfg.get("offset") else 0.0
        ws = [Fraction(float(np.exp(np.float64(x - sn["shift"])))) for x in (sn["logL"] + sn["logW"])]
        livemask = np.zeros(n, dtype=int)
        livemask[sn["live"]] = 1
        lines.append(f"loop crit {lst(ws, fr)} {lst(above.astype(int))} {lst(livemask)}")
        exp_rows.append(sn)
    for sn, outl in zip(exp_rows, ctx.model(lines)):
        d = parse_crit(outl)
        e = expected_from_exact(d, (sn["prev_logZ"] - sn["shift"]) if sn["prev_logZ"] is not None else 0.0, sn["it"])
        # the model's quotient live/nested is a FIELD division (x / 0 = 0): when every nested sample has weight zero (a likelihood
        # that is -inf on part of the prior: all discarded samples at L = 0) the quotient is outside the model's domain and the
        # logarithms decide: log(live) - log(0) = +inf (NaN when the live evidence is zero as well) — false alarm at VERIF_SEED=52
        wsum = lambda idx: float(np.exp((sn["logL"] + sn["logW"])[idx] - sn["shift"]).sum()) if len(idx) else 0.0   # noqa
        if len(sn["nested"]) and wsum(sn["nested"]) == 0.0:
            e["ratio_ns"] = math.inf if wsum(sn["live"]) > 0.0 else math.nan
        bad = [k for k in CANON if not (k == "ratio_ns" and not len(sn["nested"])) and not close(sn["attrs"][k], e[k], 1e-8)
               and not (k == "ratio_ns" and math.isnan(e[k]) and math.isnan(sn["attrs"][k]))]
        if bad:
            ctx.disagree("criteria on a real run: exact model differs from the reported values on " + ",".join(bad),
                         {"iteration": sn["it"], "impl": sn["attrs"], "model": {k: e[k] for k in CANON}, "case": c})
    # ---- oracle: first crossing.  The rule is evaluated on what the USER configured: each name is resolved through the
    # alias table here (not read back from the sampler) and paired with the tolerance given for it, in the user's order.
    table = dict(ImportanceNestedSampler.stopping_criterion_aliases)
    u_names = [cfg["criterion"]] if isinstance(cfg["criterion"], str) else list(cfg["criterion"])
    u_tols = [float(v) for v in (cfg["tol"] if isinstance(cfg["tol"], list) else [cfg["tol"]])]
    u_canon = [next(k for k, al in table.items() if n_ in al) for n_ in u_names]
    u_any = cfg["check"] == "any"
    u_mn = -1 if cfg["min"] is None else int(cfg["min"])
    u_cap = math.inf if cfg["cap"] is None else int(cfg["cap"])
    pairs = list(zip(u_canon, u_tols))
    if list(zip(names, tols)) != pairs or any_ != u_any or mn != u_mn or cap != u_cap:
        ctx.oracle_fail("ImportanceNestedSampler.configure_stopping_criterion:pairing",
                        f"user configured {list(zip(u_names, u_tols))} ({cfg['check']}, min {cfg['min']}, cap {cfg['cap']}) = criteria/tolerance "
                        f"pairs {pairs}; the sampler compares {list(zip(names, tols))} (any={any_}, min {mn}, cap {cap})", c)
    seq = [[math.inf] * len(u_canon)] + [[sn["attrs"][k] for k in u_canon] for sn in snaps[:K]]
    stop = lambda j: (met_ins(u_any, seq[j], u_tols) and j >= u_mn) or (j >= 1 and j >= u_cap)   # noqa
    table_rows = [dict(iteration=j, **{f"{k}<={t_}": v for (k, t_), v in zip(pairs, seq[j])}) for j in range(1, K + 1)]
    early = [j for j in range(K) if stop(j)]
    if early:
        ctx.oracle_fail("ImportanceNestedSampler.nested_sampling_loop:stop",
                        f"kept sampling although the configured rule was met after {early[0]} iterations (stopped after {K}): "
                        f"{'any' if u_any else 'all'} of {pairs}, min {u_mn}, cap {u_cap}; reported values {table_rows[:early[0] + 1]}", c)
    if not stop(K) and not (K == 0 and met_ins(u_any, seq[0], u_tols) and 0 >= u_mn):
        ctx.oracle_fail("ImportanceNestedSampler.nested_sampling_loop:stop",
                        f"stopped after {K} iterations although the configured rule ({'any' if u_any else 'all'} of {pairs}, min {u_mn}, "
                        f"cap {u_cap}) is not met there; reported values per iteration {table_rows}", c)
    # ---- oracle: finalise consumed every live point once
    ok = fin1 and bool(pre_fin.get("stores"))
    for store, live, nested, n in pre_fin.get("stores", []):
        after = store.nested_samples_indices
        if live is None or store.live_points_indices is not None or sorted(after.tolist()) != list(range(n)) or \
                sorted(np.concatenate([nested, live]).tolist()) != list(range(n)):
            ok = False
    if not ok or len(pre_fin["stores"]) != (2 if cfg.get("iid", True) else 1):
        ctx.oracle_fail("ImportanceNestedSampler.finalise:consume-once",
                        "live points were not moved to the nested samples exactly once at finalise", c)
    # ---- oracle: second call / resume
    if not (exc2 is None and K2 == 0 and ev2 == ev1 and s.iteration == it1 and logZ2 == logZ1):
        ctx.oracle_fail("ImportanceNestedSampler.nested_sampling_loop:rerun-after-finalise",
                        f"second call{'' if exc2 is None else ' raised ' + exc2}: {K2} further iterations, evaluations {ev1}->{ev2}, logZ {logZ1!r}->{logZ2!r}", c)
    elif not same_struct(samples2, samples1):
        f0 = model.names[0]
        ctx.oracle_fail(K_INS_RET,
                        f"second call of nested_sampling_loop on the finished sampler does not return the samples the first call "
                        f"returned (physical space): first {f0}[:3]={samples1[f0][:3].tolist()}, second {f0}[:3]="
                        f"{samples2[f0][:3].tolist() if samples2.dtype.names and f0 in samples2.dtype.names else '<missing>'} "
                        f"(unit-hypercube values = {s.samples_unit[f0][:3].tolist()})", dict(c, model_bounds=[-4.0, 4.0]))
    if resume_exc is not None:
        ctx.oracle_fail("ImportanceNestedSampler.nested_sampling_loop:resume-after-finalise",
                        f"resuming from the final checkpoint and calling nested_sampling_loop raised {resume_exc} "
                        f"after {K3} further iterations", c)
    elif not (K3 == 0 and fin3 and fin3_entry and ev3 == ev2 and logZ3 == logZ1 and same_struct(s3_samples, samples1)):
        ctx.oracle_fail("ImportanceNestedSampler.nested_sampling_loop:resume-after-finalise",
                        f"resume from the final checkpoint (finalised flag in the checkpoint: {fin3_entry}): {K3} further iterations, "
                        f"evaluations {ev2}->{ev3}, logZ {logZ1!r}->{logZ3!r}", c)
    # ---- model: replay the recorded criterion vectors
    mc = dict(fin=False, it=0, crit=[math.inf] * len(names), tol=tols, any=any_, min=int(mn),
              cap=None if math.isinf(cap) else int(cap), live=[7, 8], nested=[1], traj=[sn["cond"] for sn in snaps])
    impl = f"k={K} fin={int(fin1)} k2={K2} same={int(K2 == 0)}"
    shutil.rmtree(out, ignore_errors=True)
    ctx.traces += 1
    ctx.case(("ins-run", repr(cfg)), True, dict(c, iterations=K, criteria=names, last=seq[K], resume_iterations=K3),
             kind="ins-run:" + "+".join(names) + ":" + ("any" if any_ else "all"))
    return InsRig.line(mc), impl, c


def std_run_cfgs(ctx, n):
    base = [dict(nlive=50, tol=1.0, cap=None), dict(nlive=50, tol=0.5, cap=60), dict(nlive=30, tol=2.0, cap=None),
            dict(nlive=50, tol=3.0, cap=100), dict(nlive=40, tol=1.5, cap=None), dict(nlive=50, tol=0.1, cap=40)]
    out = []
    for i in range(n):
        b = dict(base[i % len(base)]) if i < len(base) else dict(
            nlive=ctx.rng.choice([30, 40, 50, 60]), tol=ctx.rng.choice([0.5, 1.0, 2.0, 4.0, 8.0]),
            cap=ctx.rng.choice([None, None, 20, 55, 90, 150]))
        b["seed"] = ctx.rng.randint(1, 10 ** 6)
        out.append(b)
    return out


def ins_run_cfgs(ctx, n):
    base = [
        dict(criterion="log_dZ", tol=0.05, check="any", min=None, cap=8),
        dict(criterion=["ess"], tol=[100.0], check="any", min=3, cap=6),
        dict(criterion=["ratio_all", "log_evidence"], tol=[1.0, 0.05], check="all", min=None, cap=8),
        dict(criterion=["Z_err", "ratio_ns"], tol=[1.1, 2.0], check="any", min=2, cap=7),
        dict(criterion="fractional_error", tol=0.09, check="all", min=None, cap=7),
        dict(criterion="ratio", tol=0.0, check="any", min=None, cap=4),
        dict(criterion=["evidence_error", "ess", "ratio_ns"], tol=[1.08, 120.0, 1.5], check="all", min=1, cap=8, iid=False),
        # two / three criteria given in an order different from the alias table, with different tolerances:
        # the k-th tolerance must be used for the k-th name
        dict(criterion=["fractional_error", "log_dZ"], tol=[0.05, 0.0], check="any", min=None, cap=6),
        dict(criterion=["ess", "Z_err"], tol=[500.0, 1.08], check="all", min=None, cap=8),
        dict(criterion=["log_dZ", "ratio_ns", "Z_err"], tol=[0.02, 3.0, 1.0], check="any", min=None, cap=7),
        dict(criterion=["fractional_error", "ess", "ratio"], tol=[0.1, 1000.0, 5.0], check="all", min=None, cap=8),
        dict(criterion=["evidence_error", "ratio_all"], tol=[1.09, -1.0], check="any", min=2, cap=8),
        # an un-normalised likelihood (log Z near -1000 / +900: exp() of it under/overflows in float64): the error-based
        # criteria must still be their definitions (seeded change C15-d: Z_hat exponentiated in float64)
        # periodic checkpointing switched off ("If false the sampler is still saved at the end of sampling"): resuming from
        # the final checkpoint must still return the finished run (seeded change C15-eB)
        dict(criterion="log_dZ", tol=0.1, check="any", min=None, cap=6, checkpointing=False),
        dict(criterion="Z_err", tol=1.05, check="any", min=None, cap=6, offset=-1000.0),
        # the same rules with the logger at DEBUG (records discarded)
        dict(criterion=["log_dZ", "ess"], tol=[0.05, 150.0], check="any", min=None, cap=7, debug_log=True),
        dict(criterion=["ratio_all", "ess"], tol=[2.0, 100.0], check="all", min=None, cap=7, debug_log=True),
        # a likelihood that is exactly zero on part of the prior: the evidence-change / evidence-error criteria are still their
        # definitions over ALL the samples (seeded change C15-hB normalised by the number of non-zero weights)
        dict(criterion="log_dZ", tol=0.01, check="any", min=None, cap=7, lcut=True),
        dict(criterion=["Z_err", "ess"], tol=[1.05, 400.0], check="any", min=None, cap=7, lcut=True),
        dict(criterion=["fractional_error", "ess"], tol=[0.05, 300.0], check="any", min=None, cap=6, offset=900.0),
    ]
    out = []
    for i in range(n):
        if i < len(base):
            b = dict(base[i])
        else:
            k = ctx.rng.choice([1, 1, 2, 3])
            pool = {"ratio": [0.5, 1.0, 1.5], "ratio_all": [1.0], "ratio_ns": [1.5, 2.0, 3.0], "Z_err": [1.08, 1.1, 1.12],
                    "evidence_error": [1.1], "log_dZ": [0.03, 0.05, 0.1], "log_evidence": [0.05], "ess": [60.0, 100.0, 150.0],
                    "fractional_error": [0.08, 0.1]}
            names = ctx.rng.sample(sorted(pool), k)
            b = dict(criterion=names, tol=[ctx.rng.choice(pool[n_]) for n_ in names], check=ctx.rng.choice(["any", "all"]),
                     min=ctx.rng.choice([None, None, 2, 4]), cap=ctx.rng.choice([5, 6, 8]), iid=ctx.rng.random() < 0.8)
        b["seed"] = ctx.rng.randint(1, 10 ** 6)
        b["nlive"] = 100
        out.append(b)
    return out


# ================================================================================================ entry points
def correspond(ctx):
    ctx.rule = ("scripted: a real NestedSampler / ImportanceNestedSampler instance (expensive collaborators patched, loop + finalise + "
                "configure_* real) driven on a generated start state (finalised flag, iteration, condition/criteria, tolerance(s) from a "
                "dyadic grid incl. ±inf and exact ties, cap/min incl. 0, -1 and the entry iteration, live/nested ids) and trajectory, then "
                "called a second time; compared line by line with the Lean driver; non-trivial = at least one iteration or one live point "
                "consumed. configuration: every alias and unknown names alone, random name lists x tolerance shapes x check_criteria; "
                "criteria: real compute_stopping_criterion on 2..9 rational weights vs exact Rat; real runs: complete seeded runs "
                "(2-d Gaussian), recorded per iteration")
    ctx.assume("NaN never appears as a condition / criterion / tolerance",
               "the loop body leaves tolerance, cap, minimum and the finalised flag alone and increments the iteration once (StdBodyOk / InsBodyOk)",
               "prior_sampling=False, train_final_flow=False, bootstrap=False")
    ctx.trust("hand-written loop skeleton Model/Loops.lean (runLoop) and assembled Model/LoopsRun.lean; tie = this correspondence",
              "harness.c03 substitute flows (exactly-known tilt densities) for complete importance-sampler runs")
    tmp = tempfile.mkdtemp(prefix="c15-")
    try:
        ins = scripted(ctx, tmp, ctx.scale(1500, 40000), ctx.scale(1500, 40000))
        config_tie(ctx, ins, ctx.scale(600, 10000))
        crit_sets(ctx, ins, ctx.scale(300, 8000))
        lines, impls, cases = [], [], []
        for cfg in std_run_cfgs(ctx, ctx.scale(12, 80)):
            r = run_std_real(ctx, cfg, tmp)
            if r is None:
                continue
            l, i, c = r
            lines.append(l); impls.append(i); cases.append(c)
        outs = ctx.model(lines)
        for l, o, i, c in zip(lines, outs, impls, cases):
            if _pick(o, ["k", "fin", "k2", "same"]) != i:
                ctx.disagree("real standard run: model replay of the recorded conditions differs", {"model": o, "impl": i, "case": c})
        for sd, ka in ((3, 3), (4, 2)) if ctx.quick else ((3, 3), (4, 2), (5, 4), (6, 5), (7, 1)):
            ins_midrun_resume_test(ctx, tmp, seed=sd + 10 * ctx.seed, kill_at=ka)
        lines, impls, cases = [], [], []
        for cfg in ins_run_cfgs(ctx, ctx.scale(20, 150)):
            r = run_ins_real(ctx, cfg, tmp)
            if r is None:
                continue
            l, i, c = r
            lines.append(l); impls.append(i); cases.append(c)
        outs = ctx.model(lines)
        for l, o, i, c in zip(lines, outs, impls, cases):
            if _pick(o, ["k", "fin", "k2", "same"]) != i:
                ctx.disagree("real importance run: model replay of the recorded criteria differs", {"model": o, "impl": i, "case": c})
    finally:
        shutil.rmtree(tmp, ignore_errors=True)


def search(ctx):
    """a proof / the translation / the tie broke: look for a concrete failing input with the oracle on a larger, boundary-heavy stream"""
    tmp = tempfile.mkdtemp(prefix="c15s-")
    try:
        std, ins = StdRig(tmp), InsRig(tmp)
        for i in range(ctx.scale(4000, 40000)):
            c = gen_std_case(ctx.rng, boundary=True)
            line, s1, s2 = std.run(c)
            oracle_std(ctx, c, line, s1, s2)
            c = gen_ins_case(ctx.rng, boundary=True)
            line, s1, s2 = ins.run(c)
            oracle_ins(ctx, c, line, s1, s2)
            if ctx.fails and i > 200:
                break
    finally:
        shutil.rmtree(tmp, ignore_errors=True)


def replay(ctx, obj):
    c = obj.get("case") or {}
    c = c.get("case", c) if "kind" not in c else c
    tmp = tempfile.mkdtemp(prefix="c15r-")
    try:
        kind = c.get("kind")
        if kind == "std":
            rig = StdRig(tmp)
            line, s1, s2 = rig.run(c)
            oracle_std(ctx, c, line, s1, s2)
            ctx.diff_model([StdRig.line(c)], [line], [c])
        elif kind == "ins":
            rig = InsRig(tmp)
            line, s1, s2 = rig.run(c)
            oracle_ins(ctx, c, line, s1, s2)
            ctx.diff_model([InsRig.line(c)], [line], [c])
        elif kind == "std-run":
            cfg = {k: c[k] for k in ("nlive", "tol", "cap", "seed")}
            run_std_real(ctx, cfg, tmp)
        elif kind == "ins-run":
            cfg = {k: c[k] for k in ("criterion", "tol", "check", "min", "cap", "seed", "nlive", "iid") if k in c}
            run_ins_real(ctx, cfg, tmp)
        else:
            correspond(ctx)
            return
        ctx.case(repr(c), True, c, kind="replay")
    finally:
        shutil.rmtree(tmp, ignore_errors=True)
