import NessaiVerif.Driver.Parse
/- stub: replaced by the owner of this area (C05) -/
namespace NessaiVerif.Driver.Results
def handle (_toks : List String) : String := "bad-op"
end NessaiVerif.Driver.Results
