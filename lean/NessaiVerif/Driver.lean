import NessaiVerif.Driver.Parse
import NessaiVerif.Driver.Batch
/- Line-protocol dispatcher: first token selects the area. Mathlib-free. -/
namespace NessaiVerif.Driver

def dispatch (line : String) : String :=
  match (line.trimAscii.toString.splitOn " ").filter (· ≠ "") with
  | "bat" :: rest => Batch.handle rest
  | _ => "bad-op"

end NessaiVerif.Driver
