"""C13 — a termination signal at any instant leaves a consistent, resumable state."""
import ast
import json
import hashlib
import itertools
import os
import pickle
import shutil
import signal
import sys
import tempfile

import numpy as np

from . import core

PROPS_MODULE = "NessaiVerif.Props.C13"
KEY_F4 = "NestedSampler.consume_sample:interrupt-between-evidence-increment-and-insertion-index"
MANIFEST = dict(
    text="PARTIAL (exact at the granularity of the seven state-mutating statements; exit code, 'checkpoint written before exit' and the "
         "flow-proposal phase are harness-only): Lean micro-step model of one iteration of the standard sampler (the state-mutating statements of consume_sample / "
         "insert_live_point in the order extracted from the source on every run) and of interruption + checkpoint + resume: "
         "proved for every consistent state and every admissible candidate that a signal before the evidence increment or after the "
         "insertion index is recorded resumes to a consistent state, and that a signal anywhere in between ALWAYS resumes to an "
         "inconsistent one (worst point integrated/recorded twice or an insertion index missing) — the latter is a genuine defect "
         "of the code (known finding F4), so the property is decided as: holds outside the window, fails inside it, window exact. "
         "Importance sampler: the handler's checkpoint request returns before any write (guard position extracted from source). "
         "Tie: the real handler path (checkpoint + exit) is invoked before every statement line of consume_sample, "
         "_NSIntegralState.increment, insert_live_point, check_state and update_state of the real sampler (scripted proposal; and a real run in its flow "
         "phase), the pickled state and the resumed run are compared with the model and checked with the property's consistency "
         "list; a real SIGTERM to a child process checks the exit code; for the importance sampler the boundary checkpoint must "
         "stay byte-identical.",
    note="Signals are delivered at source-line granularity by a trace hook calling the real checkpoint/exit path (real OS signals "
         "only for the exit-code test); the model treats state.increment as one step: the statement lines inside it are interrupted too "
         "but judged by the oracle only (the window opens at its first mutating statement, same known finding F4); interruptions "
         "inside a single Python statement (NumPy slice assignment) are not enumerated.",
    technique="Lean 4 proof (micro-step state machine, both directions) + source-order translator + line-level interruption of the real code",
    ref="5/C13")

TAGS = ["setMin", "increment", "appendNested", "iter", "shift", "place", "idx"]


# ------------------------------------------------------------------------------------ translator
class TranslationError(Exception):
    pass


def _attr_chain(node):
    parts = []
    while isinstance(node, ast.Attribute):
        parts.append(node.attr)
        node = node.value
    if isinstance(node, ast.Name):
        parts.append(node.id)
        return ".".join(reversed(parts))
    return None


def _func(tree, cls, name):
    for n in ast.walk(tree):
        if isinstance(n, ast.ClassDef) and n.name == cls:
            for f in n.body:
                if isinstance(f, ast.FunctionDef) and f.name == name:
                    return f
    raise TranslationError(f"{cls}.{name} not found")


WATCHED = {"self.live_points", "self.nested_samples", "self.insertion_indices", "self.iteration", "self.logLmin", "self.state"}


def statement_tags(tree):
    """ordered (tag, lineno, function) of the state-mutating statements of one iteration"""
    consume = _func(tree, "NestedSampler", "consume_sample")
    insert = _func(tree, "NestedSampler", "insert_live_point")

    def classify(stmt, fn):
        # returns list of (tag, lineno, fn)
        if isinstance(stmt, ast.Assign) and len(stmt.targets) == 1:
            t = stmt.targets[0]
            if _attr_chain(t) == "self.logLmin":
                return [("setMin", stmt.lineno, fn)]
            if isinstance(t, ast.Subscript) and _attr_chain(t.value) == "self.live_points":
                return [("shift" if isinstance(t.slice, ast.Slice) else "place", stmt.lineno, fn)]
            if isinstance(stmt.value, ast.Call) and _attr_chain(stmt.value.func) == "self.insert_live_point":
                out = []
                for s in insert.body:
                    out += classify(s, "insert_live_point")
                return out
            if _attr_chain(t) in WATCHED:
                raise TranslationError(f"unmodelled assignment to {_attr_chain(t)} at line {stmt.lineno}")
            return []
        if isinstance(stmt, ast.AugAssign):
            if _attr_chain(stmt.target) == "self.iteration":
                return [("iter", stmt.lineno, fn)]
            if _attr_chain(stmt.target) in WATCHED:
                raise TranslationError(f"unmodelled update of {_attr_chain(stmt.target)} at line {stmt.lineno}")
            return []
        if isinstance(stmt, ast.Expr) and isinstance(stmt.value, ast.Call):
            f = _attr_chain(stmt.value.func)
            if f == "self.state.increment":
                return [("increment", stmt.lineno, fn)]
            if f == "self.nested_samples.append":
                return [("appendNested", stmt.lineno, fn)]
            if f == "self.insertion_indices.append":
                return [("idx", stmt.lineno, fn)]
            if f and any(f.startswith(w + ".") for w in WATCHED if w != "self.state") and f.split(".")[-1] in (
                    "append", "pop", "insert", "remove", "extend", "clear", "sort"):
                raise TranslationError(f"unmodelled mutation {f} at line {stmt.lineno}")
            return []
        out = []
        for field in ("body", "orelse", "finalbody"):
            for s in getattr(stmt, field, []) or []:
                if isinstance(s, ast.stmt):
                    out += classify(s, fn)
        return out

    tags = []
    for s in consume.body:
        tags += classify(s, "consume_sample")
    return tags, consume, insert


def ins_guard_first(tree):
    f = _func(tree, "ImportanceNestedSampler", "checkpoint")
    body = [s for s in f.body if not (isinstance(s, ast.Expr) and isinstance(s.value, ast.Constant))]
    if not body:
        raise TranslationError("empty ImportanceNestedSampler.checkpoint")
    first = body[0]
    def test_value(v):
        # polarity of the guard: it must be taken for the handler's call (periodic=False, force=False) and not for a periodic one
        try:
            return bool(eval(compile(ast.Expression(first.test), "<guard>", "eval"), {"__builtins__": {}}, {"periodic": v, "force": False}))
        except Exception:
            return None

    ok = (isinstance(first, ast.If) and "periodic" in ast.unparse(first.test)
          and test_value(False) is True and test_value(True) is False
          and any(isinstance(s, ast.Return) for s in first.body)
          and not any(isinstance(c, ast.Call) and (ast.unparse(c.func).endswith("checkpoint") or "dump" in ast.unparse(c.func))
                      for s in first.body for c in ast.walk(s)))
    return bool(ok)


def populate_publishes_after_fill(tree):
    """table fact about `NestedSampler.populate_live_points`: every statement that assigns `self.live_points` (the attribute,
    an item or a slice of it, an augmented assignment) comes AFTER the last loop of the function — i.e. the array a signal
    handler would pickle is bound only once it is complete.  Returns (flag, [(line, target, after_last_loop)])."""
    fn = _func(tree, "NestedSampler", "populate_live_points")
    loops = [n for n in ast.walk(fn) if isinstance(n, (ast.While, ast.For))]
    last_loop_end = max((n.end_lineno for n in loops), default=0)
    sites = []
    for n in ast.walk(fn):
        targets = []
        if isinstance(n, ast.Assign):
            targets = n.targets
        elif isinstance(n, (ast.AugAssign, ast.AnnAssign)):
            targets = [n.target]
        for t in targets:
            for sub in ast.walk(t):
                if isinstance(sub, ast.Attribute) and sub.attr == "live_points" and isinstance(sub.value, ast.Name) \
                        and sub.value.id == "self":
                    sites.append((n.lineno, ast.unparse(t), n.lineno > last_loop_end))
    if not sites:
        raise TranslationError("populate_live_points: no assignment of self.live_points found")
    if not loops:
        raise TranslationError("populate_live_points: no draw loop found")
    return all(a for _, _, a in sites), sites


def exit_swallowers():
    """every `except` clause of the package that would swallow the handler's SystemExit (or a KeyboardInterrupt): a bare
    `except:`, `except BaseException`, `except SystemExit/KeyboardInterrupt` whose body does not re-raise"""
    out = []
    for path in sorted((core.REPO / "nessai").rglob("*.py")):
        try:
            tree = ast.parse(path.read_text())
        except SyntaxError as e:
            raise TranslationError(f"{path}: {e}")
        for node in ast.walk(tree):
            if not isinstance(node, ast.ExceptHandler):
                continue
            names = []
            if node.type is None:
                names = ["<bare>"]
            else:
                elts = node.type.elts if isinstance(node.type, ast.Tuple) else [node.type]
                names = [ast.unparse(e) for e in elts if ast.unparse(e).split(".")[-1] in
                         ("BaseException", "SystemExit", "KeyboardInterrupt", "GeneratorExit")]
            if not names:
                continue
            reraises = any(isinstance(n, ast.Raise) and n.exc is None for st in node.body for n in ast.walk(st))
            if not reraises:
                out.append(f"{path.relative_to(core.REPO)}:{node.lineno}:{'/'.join(names)}")
    return out


def gen(ctx):
    src1 = core.REPO / "nessai" / "samplers" / "nestedsampler.py"
    src2 = core.REPO / "nessai" / "samplers" / "importancesampler.py"
    try:
        t1 = ast.parse(src1.read_text())
        t2 = ast.parse(src2.read_text())
        tags, consume, insert = statement_tags(t1)
        order = [t for t, _, _ in tags]
        if sorted(order) != sorted(TAGS) and not set(order) <= set(TAGS):
            raise TranslationError(f"unknown tags {order}")
        guard = ins_guard_first(t2)
        publish, publish_sites = populate_publishes_after_fill(t1)
        swallow = exit_swallowers()
        text1 = ast.get_source_segment(src1.read_text(), consume) + ast.get_source_segment(src1.read_text(), insert) \
            + ast.get_source_segment(src1.read_text(), _func(t1, "NestedSampler", "populate_live_points"))
        text2 = ast.get_source_segment(src2.read_text(), _func(t2, "ImportanceNestedSampler", "checkpoint"))
    except (TranslationError, SyntaxError, OSError) as e:
        ctx.broken(f"translator: {e}")
        return None
    sha = hashlib.sha256((text1 + text2).encode()).hexdigest()
    body = (
        "import NessaiVerif.Model.Interrupt\n"
        "/- GENERATED by harness/c13.py gen() — do not edit.\n"
        f"   source: nessai/samplers/nestedsampler.py NestedSampler.consume_sample (line {consume.lineno}) + insert_live_point (line {insert.lineno}) + populate_live_points,\n"
        "           nessai/samplers/importancesampler.py ImportanceNestedSampler.checkpoint\n"
        f"   sha256 of the translated source text: {sha} -/\n"
        "namespace NessaiVerif.Gen.Interrupt\nopen NessaiVerif.Interrupt\n"
        f"def consumeOrder : List Tag := [{', '.join('.' + t for t in order)}]\n"
        f"def insGuardFirst : Bool := {'true' if guard else 'false'}\n"
        "/-- `populate_live_points` binds `self.live_points` only after its draw loop (sites: "
        + "; ".join(f"line {ln} `{tg}`" for ln, tg, _ in publish_sites) + ") -/\n"
        f"def populatePublishesAfterFill : Bool := {'true' if publish else 'false'}\n"
        "/-- `except` clauses of the package that would swallow the signal handler's `SystemExit` without re-raising -/\n"
        "def exitSwallowers : List String := [" + ", ".join('"' + x + '"' for x in swallow) + "]\n"
        "end NessaiVerif.Gen.Interrupt\n")
    path = core.LEAN / "NessaiVerif" / "Gen" / "Interrupt.lean"
    if not path.exists() or path.read_text() != body:
        path.write_text(body)
    ctx.extra["translated"] = {"order": order, "ins_guard_first": guard, "populate_publishes_after_fill": publish, "exit_swallowers": swallow,
                               "populate_live_points_assignments": [list(x) for x in publish_sites], "lines": [(t, ln, fn) for t, ln, fn in tags]}
    return tags


# ------------------------------------------------------------------------------------ scripted real sampler
def _model():
    from nessai.model import Model

    class M(Model):
        def __init__(self):
            self.names = ["pid", "y"]
            self.bounds = {"pid": [0.0, 1e6], "y": [-1.0, 1.0]}

        def log_prior(self, x):
            return np.log(self.in_bounds(x), dtype="float")

        def log_likelihood(self, x):
            return np.zeros(x.size) + x["y"] * 0.0 + 12345.0   # never used: candidates carry logL

    return M()


from nessai.proposal.base import Proposal  # noqa: E402


class Scripted(Proposal):
    """hands out prescribed candidates (key = log-likelihood, id = first parameter)"""

    def __init__(self, model, queue=None):
        super().__init__(model)
        self.queue = list(queue or [])

    def draw(self, old):
        from nessai.livepoint import parameters_to_live_point
        k, i = self.queue.pop(0)
        p = parameters_to_live_point((float(i), 0.0), self.model.names)
        p["logP"] = 0.0
        p["logL"] = float(k)
        return p[0] if p.ndim else p


class Interrupted(BaseException):
    pass


def new_sampler(outdir, nlive, init, queue):
    from nessai.samplers.nestedsampler import NestedSampler
    m = _model()
    ns = NestedSampler(m, nlive=nlive, output=outdir, resume_file="ckpt.pkl", plot=False, checkpointing=True,
                       checkpoint_interval=10 ** 9, checkpoint_on_iteration=True, seed=1,
                       uninformed_proposal=Scripted, uninformed_proposal_kwargs={"queue": list(init) + list(queue)},
                       maximum_uninformed=np.inf, uninformed_acceptance_threshold=0.0, log_on_iteration=False)
    ns.initialise(live_points=True)
    return ns, m


def state_of(ns):
    live = ns.live_points
    return {"live": [] if live is None else [(int(p["logL"]), int(p["pid"])) for p in live],
            "nested": [int(p["pid"]) for p in ns.nested_samples],
            "evid": [int(v) for v in ns.state.logLs[1:]],
            "evid_nlive": len(ns.state.nlive), "evid_vols": len(ns.state.log_vols) - 1,
            "idx": [int(v) for v in ns.insertion_indices], "iter": int(ns.iteration)}


def fmt_state(st, n):
    ok = consistent(st, n)
    return (f"live=[{','.join(f'{k}:{i}' for k, i in st['live'])}] nested=[{','.join(map(str, st['nested']))}] "
            f"evid=[{','.join(map(str, st['evid']))}] idx=[{','.join(map(str, st['idx']))}] iter={st['iter']} ok={int(ok)}")


def consistent(st, n):
    """the property's consistency list, evaluated on the real object's state"""
    ids = [i for _, i in st["live"]] + st["nested"]
    keys = [k for k, _ in st["live"]]
    return (len(st["live"]) == n and len(st["nested"]) == st["iter"] and len(st["evid"]) == st["iter"]
            and st.get("evid_nlive", st["iter"]) == st["iter"] and st.get("evid_vols", st["iter"]) == st["iter"]
            and len(st["idx"]) == st["iter"] and len(set(ids)) == len(ids) and keys == sorted(keys))


def reasons(st, n):
    out = []
    ids = [i for _, i in st["live"]] + st["nested"]
    if len(st["live"]) != n:
        out.append(f"live set has {len(st['live'])} points instead of {n}")
    if len(set(ids)) != len(ids):
        out.append("a point is duplicated (recorded twice or still live after being recorded)")
    if len(st["nested"]) != st["iter"]:
        out.append(f"{len(st['nested'])} discarded points recorded for {st['iter']} iterations")
    if len(st["evid"]) != st["iter"]:
        out.append(f"{len(st['evid'])} evidence-state entries for {st['iter']} iterations")
    if len(st["idx"]) != st["iter"]:
        out.append(f"{len(st['idx'])} insertion indices for {st['iter']} iterations")
    for k, what in (("evid_nlive", "live-point counts"), ("evid_vols", "prior volumes")):
        if st.get(k, st["iter"]) != st["iter"]:
            out.append(f"the evidence integrator holds {st[k]} {what} for {st['iter']} iterations")
    return out


def known_increment_sites():
    """the statements of _NSIntegralState.increment at which an interrupt is part of the KNOWN finding F4 (listed, by their
    text, in known_findings.json): an unsafe instant at any other statement of increment is a different violation (seeded
    change C13-hB moved the first mutation of increment in front of the monotonicity check)"""
    try:
        d = json.loads((core.VERIF / "known_findings.json").read_text())
        for f in d["findings"]:
            if f.get("id") == "F4":
                return set(f.get("sites_inside_increment", []))
    except Exception:  # noqa
        pass
    return set()


def in_window(done):
    """the known window: after the first mutation inside state.increment (done = 1.5 stands for "inside increment")
    up to and including the insertion-index append"""
    return 1 < done <= 6


def _code_objs():
    from nessai.evidence import _NSIntegralState
    from nessai.samplers.nestedsampler import NestedSampler
    return {NestedSampler.consume_sample.__code__: "consume_sample",
            NestedSampler.insert_live_point.__code__: "insert_live_point",
            NestedSampler.check_state.__code__: "check_state",
            NestedSampler.update_state.__code__: "update_state",
            _NSIntegralState.increment.__code__: "increment"}


def interrupt_run(ctx, nlive, init, pre, cand, cand2, lineno, fn_name, n_done_tags):
    """run `pre` complete iterations, then interrupt the next one before source line `lineno`
    via the real checkpoint path, resume from the pickle, run one more iteration; returns the states"""
    from nessai.samplers.nestedsampler import NestedSampler
    tmp = tempfile.mkdtemp(prefix="c13_")
    try:
        ns, model = new_sampler(tmp, nlive, init, list(pre) + [cand])
        for _ in pre:
            ns.consume_sample()
        before = state_of(ns)
        code_objs = _code_objs()
        target_code = [c for c, n in code_objs.items() if n == fn_name]
        fired = []

        def tracer(frame, event, arg):
            if frame.f_code in target_code:
                def local(frame, event, arg):
                    if event == "line" and frame.f_lineno == lineno and not fired:
                        fired.append(True)
                        sys.settrace(None)
                        # what FlowSampler.safe_exit does: close pool, checkpoint, exit
                        ns.close_pool(code=signal.SIGTERM)
                        ns.checkpoint()
                        raise Interrupted()
                    return local
                return local
            return None

        sys.settrace(tracer)
        try:
            # the body of the sampling loop
            ns.check_state()
            ns.consume_sample()
            ns.update_state()
        except Interrupted:
            pass
        finally:
            sys.settrace(None)
        if not fired:
            return None
        with open(os.path.join(tmp, "ckpt.pkl"), "rb") as f:
            ns2 = pickle.load(f)
        ns2 = NestedSampler.resume_from_pickled_sampler(ns2, _model())
        pickled = state_of(ns2)
        return _continue_after_resume(ns2, before, pickled, cand2)
    finally:
        shutil.rmtree(tmp, ignore_errors=True)


class ResumeFailed(Exception):
    """the checkpoint left by the handler could not be resumed / continued (a violation, not a harness error)"""


def _continue_after_resume(ns2, before, pickled, cand2):
    try:
        # what FlowSampler.run_standard_sampler + nested_sampling_loop do on entry after a resume
        import datetime
        ns2.initialise()
        ns2.sampling_start_time = datetime.datetime.now()
        if not ns2.initialised:
            ns2.initialise(live_points=True)
        ns2.check_resume()
        if ns2.iteration:
            ns2.update_state()
        ns2.proposal.queue = [cand2]
        ns2.check_state()
        ns2.consume_sample()
        resumed = state_of(ns2)
        ns2.finalise()
        final = state_of(ns2)
        return before, pickled, resumed, final
    except Exception as e:  # noqa: the resumed run itself failed
        raise ResumeFailed(f"{type(e).__name__}: {e}")


def traced_lines(tags, consume, insert):
    """every source line of the two functions that starts a statement, with the number of
    mutating statements completed BEFORE it (in execution order for an accepted candidate)"""
    lines = []
    tag_lines = [(ln, fn) for _, ln, fn in tags]

    def stmts(fn_node):
        out = []
        for n in ast.walk(fn_node):
            if isinstance(n, ast.stmt) and not isinstance(n, ast.FunctionDef):
                if not (isinstance(n, ast.Expr) and isinstance(n.value, ast.Constant)):
                    out.append(n.lineno)
        return sorted(set(out))

    insert_call = None
    for n in ast.walk(consume):
        if isinstance(n, ast.Assign) and isinstance(n.value, ast.Call) and _attr_chain(n.value.func) == "self.insert_live_point":
            insert_call = n.lineno
    # rejected-candidate branch (else of the acceptance test) is not executed with a valid candidate
    skip = set()
    for n in ast.walk(consume):
        if isinstance(n, ast.If) and "logLmin" in ast.unparse(n.test):
            for s in n.orelse:
                for m in ast.walk(s):
                    if isinstance(m, ast.stmt):
                        skip.add(m.lineno)
    for ln in stmts(consume):
        if ln in skip:
            continue
        done = sum(1 for (tl, tf) in tag_lines if (tf == "consume_sample" and tl < ln)
                   or (tf == "insert_live_point" and insert_call is not None and insert_call < ln))
        lines.append((ln, "consume_sample", done))
    for ln in stmts(insert):
        done = sum(1 for (tl, tf) in tag_lines if (tf == "consume_sample" and insert_call is not None and tl < insert_call)
                   or (tf == "insert_live_point" and tl < ln))
        lines.append((ln, "insert_live_point", done))
    # inside _NSIntegralState.increment (called from consume_sample): lines before its first mutating statement are still
    # "only logLmin assigned" (done = 1, comparable with the model); every later line is INSIDE the integrator update, which
    # the model treats as one step: done = 1.5, oracle-only (no model line)
    for ln, inside in increment_lines():
        lines.append((ln, "increment", 1.5 if inside else 1))
    # the rest of the loop body: check_state runs before consume_sample (nothing done), update_state after it (all done)
    for fname, done in (("check_state", 0), ("update_state", len(tag_lines))):
        try:
            fnode = _func(tree_of(consume), "NestedSampler", fname)
        except TranslationError:
            continue
        body_lines = sorted({n.lineno for n in fnode.body if isinstance(n, ast.stmt)
                             and not (isinstance(n, ast.Expr) and isinstance(n.value, ast.Constant))})
        for ln in body_lines:
            lines.append((ln, fname, done))
    return lines


def increment_lines():
    """(line, inside) for every statement line of nessai.evidence._NSIntegralState.increment; `inside` = some statement that
    mutates the integrator (assignment to / append on a self attribute) has completed before it"""
    src = (core.REPO / "nessai" / "evidence.py").read_text()
    fn = _func(ast.parse(src), "_NSIntegralState", "increment")

    def mutates(n):
        if isinstance(n, (ast.Assign, ast.AugAssign, ast.AnnAssign)):
            for t in (n.targets if isinstance(n, ast.Assign) else [n.target]):
                ch = _attr_chain(t.value if isinstance(t, ast.Subscript) else t)
                if ch and ch.startswith("self."):
                    return True
            return False
        if isinstance(n, ast.Expr) and isinstance(n.value, ast.Call):
            ch = _attr_chain(n.value.func)
            return bool(ch) and ch.startswith("self.") and ch.split(".")[-1] in ("append", "extend", "insert", "pop", "update")
        return False

    stmts = sorted({(n.lineno, mutates(n)) for n in ast.walk(fn) if isinstance(n, ast.stmt) and n is not fn
                    and not (isinstance(n, ast.Expr) and isinstance(n.value, ast.Constant))})
    first = min((ln for ln, m in stmts if m), default=None)
    if first is None:
        raise TranslationError("no mutating statement found in _NSIntegralState.increment")
    return [(ln, ln > first) for ln in sorted({ln for ln, _ in stmts})]


_TREES = {}


def tree_of(node):
    return _TREES["tree"]


def correspond(ctx):
    import torch
    torch.set_num_threads(1)
    tags = gen(ctx) if "translated" not in ctx.extra else None
    src = (core.REPO / "nessai" / "samplers" / "nestedsampler.py").read_text()
    tree = ast.parse(src)
    try:
        tags, consume, insert = statement_tags(tree)
    except TranslationError as e:
        ctx.broken(f"translator: {e}")
        return
    _TREES["tree"] = tree
    lines = traced_lines(tags, consume, insert)
    ctx.rule = ("for each configuration (nlive, likelihood pattern with ties, number of completed iterations, candidate position) the real "
                "checkpoint-and-exit path is invoked before EVERY statement line of check_state, consume_sample, _NSIntegralState.increment, "
                "insert_live_point and update_state of the real NestedSampler; the pickled state and the state after resume + one more iteration are compared with the Lean model and "
                "checked with the property's consistency list; INS: handler checkpoint mid-iteration must leave the boundary checkpoint "
                "byte-identical; non-trivial = distinct (configuration, line)")
    ctx.assume("signals delivered at source-line granularity (every statement line of check_state, consume_sample, _NSIntegralState.increment, insert_live_point, update_state); interruptions inside a single statement (e.g. a NumPy slice assignment) not enumerated; the model treats state.increment as one step, so the lines inside it are judged by the oracle only",
               "pickle fidelity of the sampler state (observed)")
    ctx.trust("Model/Interrupt.lean (hand-written micro-steps); statement order and INS guard position regenerated from source (Gen/Interrupt.lean)")
    rng = ctx.rng
    nconf = ctx.scale(3, 20)
    mlines, impls, cases = [], [], []
    window_hits = 0
    sites = known_increment_sites()
    ev_src = (core.REPO / "nessai" / "evidence.py").read_text()
    for c in range(nconf):
        nlive = rng.choice([10, 11, 13])
        keys = sorted(rng.choice(range(2, 30, 2)) for _ in range(nlive))     # ties possible
        ids = itertools.count(1)
        init = [(k, next(ids)) for k in keys]
        rng.shuffle(init)
        npre = rng.choice([0, 1, 3])
        live_keys = sorted(keys)
        pre = []
        for _ in range(npre):
            k = live_keys[0] + rng.choice([1, 3, 7, 40])
            pre.append((k, next(ids)))
            live_keys = sorted(live_keys[1:] + [k])
        where = rng.choice(["low", "mid", "top"])
        ck = {"low": live_keys[0] + 1, "mid": live_keys[len(live_keys) // 2] + 1, "top": live_keys[-1] + 5}[where]
        cand = (ck, next(ids))
        cand2 = (max(live_keys) + 9, next(ids))
        for (ln, fn, done) in lines:
            case = {"nlive": nlive, "init": init, "pre": pre, "cand": cand, "cand2": cand2, "line": ln, "fn": fn,
                    "mutating_statements_done": done, "source": (ev_src if fn == "increment" else src).splitlines()[ln - 1].strip()}
            try:
                res = interrupt_run(ctx, nlive, init, pre, cand, cand2, ln, fn, done)
            except ResumeFailed as e:
                key = KEY_F4 if (in_window(done) and (fn != "increment" or case["source"] in sites)) else f"NestedSampler.{fn}:resume-after-signal:raised"
                ctx.oracle_fail(key, f"the checkpoint written by the signal handler cannot be resumed/continued: {e}", case)
                ctx.case((c, ln), True, kind=f"done={done}:resume-raised")
                continue
            if res is None:
                ctx.case((c, ln), False, kind="line-not-reached")
                continue
            before, pickled, resumed, final = res
            sorted_init = sorted(init, key=lambda t: (t[0], t[1]))
            if done == int(done):   # inside state.increment (done = 1.5) the model has no corresponding instant: oracle only
                mline = (f"int run {nlive} [{','.join(f'{k}:{i}' for k, i in sorted_init)}] "
                         + ";".join([f"c {k}:{i}" for k, i in pre] + [f"p {int(done)} {cand[0]}:{cand[1]}", f"r {cand2[0]}:{cand2[1]}", "f"]))
                mlines.append(mline)
                impls.append((fmt_state(pickled, nlive), fmt_state(resumed, nlive), fmt_state(final, 0).rsplit(" ok=", 1)[0]))
                cases.append(case)
            ok = consistent(resumed, nlive)
            fin_ids = final["nested"]
            ok_final = len(set(fin_ids)) == len(fin_ids) and len(final["evid"]) == len(fin_ids)
            if not (ok and ok_final):
                inw = in_window(done) and (fn != "increment" or case["source"] in sites)
                key = KEY_F4 if inw else f"NestedSampler.{fn}:interrupt-outside-known-window"
                window_hits += inw
                ctx.oracle_fail(key, "after signal + checkpoint + resume: " + "; ".join(reasons(resumed, nlive) or ["final result records a point twice"]),
                                case)
            ctx.case((c, ln), True, case if c == 0 and done in (0, 3, 7) else None, kind=f"done={done}:{'ok' if ok and ok_final else 'inconsistent'}")
    # model comparison
    outs = ctx.model(mlines)
    for mline, mo, (ip, ir, ifin), case in zip(mlines, outs, impls, cases):
        parts = mo.split("|")
        if len(parts) < 3:
            ctx.disagree("model rejected the line", {"line": mline, "model": mo})
            continue
        mp_, mr, mf = parts[-3], parts[-2], parts[-1].rsplit(" ok=", 1)[0]
        if (mp_, mr, mf) != (ip, ir, ifin):
            ctx.disagree("model != implementation (pickled / resumed / final state)",
                         {"case": case, "line": mline, "model": [mp_, mr, mf], "impl": [ip, ir, ifin]})
    ctx.extra["window_lines_inconsistent"] = window_hits
    flow_phase_test(ctx, lines, src)
    pool_population_interrupt_test(ctx)
    weights_write_interrupt_test(ctx)
    exit_code_test(ctx)
    double_signal_test(ctx)
    populate_interrupt_test(ctx)
    plot_signal_test(ctx)
    ins_test(ctx)


def _gauss_model():
    from nessai.model import Model

    class G(Model):
        def __init__(self):
            self.names = ["x", "y"]
            self.bounds = {"x": [-5.0, 5.0], "y": [-5.0, 5.0]}

        def log_prior(self, x):
            return np.log(self.in_bounds(x), dtype="float") - 2 * np.log(10.0)

        def log_likelihood(self, x):
            return -0.5 * (x["x"] ** 2 + x["y"] ** 2)

    return G()


def real_state(ns):
    live = ns.live_points
    pid = lambda p: hash((float(p["x"]), float(p["y"])))  # noqa: E731
    return {"live": [] if live is None else [(float(p["logL"]), pid(p)) for p in live],
            "nested": [pid(p) for p in ns.nested_samples],
            "evid": list(ns.state.logLs[1:]), "evid_nlive": len(ns.state.nlive), "evid_vols": len(ns.state.log_vols) - 1,
            "idx": list(ns.insertion_indices), "iter": int(ns.iteration)}


def flow_phase_test(ctx, lines, src):
    """the same interruption experiment on a real run that has switched to the flow proposal (tiny flow):
    from a checkpoint in the flow phase, interrupt before each statement line of the loop body, resume, continue"""
    import logging
    from nessai.flowsampler import FlowSampler
    from nessai.samplers.nestedsampler import NestedSampler
    logging.disable(logging.CRITICAL)
    base = tempfile.mkdtemp(prefix="c13f_")
    nlive = 50
    kw = dict(nlive=nlive, plot=False, seed=3, maximum_uninformed=50, checkpoint_on_iteration=True, checkpoint_interval=10 ** 9,
              signal_handling=False, flow_config=dict(n_blocks=2, n_neurons=4), training_config=dict(max_epochs=5),
              poolsize=100, log_on_iteration=False)
    try:
        fs = FlowSampler(_gauss_model(), output=base, resume=True, max_iteration=120, **kw)
        fs.run(plot=False, save=False)
        if fs.ns.uninformed_sampling:
            ctx.case(("flow-phase", "not-reached"), False, kind="flow:not-reached")
            return
        code_objs = _code_objs()
        step = ctx.scale(3, 1)
        # the pickled sampler stores absolute paths, so every experiment runs in `base`, restored from a template copy
        template = tempfile.mkdtemp(prefix="c13t_")
        shutil.rmtree(template)
        shutil.copytree(base, template)
        d = base
        for (ln, fn, done) in lines[::step]:
            try:
                shutil.rmtree(base)
                shutil.copytree(template, base)
                f2 = FlowSampler(_gauss_model(), output=d, resume=True, **kw)
                f2.ns.max_iteration = 125
                f2.ns.initialise()
                target = [c for c, n in code_objs.items() if n == fn]
                fired = []

                def tracer(frame, event, arg, target=target, ln=ln, f2=f2, fired=fired):
                    if frame.f_code in target:
                        def local(frame, event, arg):
                            if event == "line" and frame.f_lineno == ln and not fired:
                                fired.append(True)
                                sys.settrace(None)
                                f2.ns.close_pool(code=signal.SIGTERM)
                                f2.ns.checkpoint()
                                raise Interrupted()
                            return local
                        return local
                    return None

                sys.settrace(tracer)
                try:
                    f2.ns.nested_sampling_loop()
                except Interrupted:
                    pass
                finally:
                    sys.settrace(None)
                ev_src = (core.REPO / "nessai" / "evidence.py").read_text()
                case = {"phase": "flow", "line": ln, "fn": fn, "mutating_statements_done": done,
                        "source": (ev_src if fn == "increment" else src).splitlines()[ln - 1].strip(), "nlive": nlive}
                sites = known_increment_sites()
                inw_known = in_window(done) and (fn != "increment" or case["source"] in sites)
                if not fired:
                    ctx.case(("flow", ln), False, kind="flow:line-not-reached")
                    continue
                try:
                    f3 = FlowSampler(_gauss_model(), output=d, resume=True, **kw)
                    f3.ns.max_iteration = f3.ns.iteration + 15
                    f3.ns.initialise()
                    f3.ns.nested_sampling_loop()
                except Exception as e:  # noqa: the resumed run itself failed
                    key = KEY_F4 if inw_known else f"NestedSampler.{fn}:resume-after-signal:raised"
                    ctx.oracle_fail(key, "flow phase: the checkpoint written by the signal handler cannot be resumed/continued: "
                                    f"{type(e).__name__}: {e}", case)
                    ctx.case(("flow", ln), True, kind=f"flow:done={done}:resume-raised")
                    continue
                st = real_state(f3.ns)
                ok = consistent({**st, "live": [(k, i) for k, i in st["live"]]}, nlive)
                if not ok:
                    key = KEY_F4 if inw_known else f"NestedSampler.{fn}:interrupt-outside-known-window"
                    ctx.oracle_fail(key, "flow phase, after signal + checkpoint + resume + 15 iterations: " + "; ".join(reasons(st, nlive)), case)
                ctx.case(("flow", ln), True, case if done in (0, 7) and ln % 2 == 0 else None,
                         kind=f"flow:done={done}:{'ok' if ok else 'inconsistent'}")
            finally:
                pass
    finally:
        logging.disable(logging.NOTSET)
        shutil.rmtree(base, ignore_errors=True)
        if "template" in locals():
            shutil.rmtree(template, ignore_errors=True)


def pool_population_interrupt_test(ctx):
    """a signal while a PROPOSAL POOL is being populated — at the moment the pool's likelihoods are evaluated — in the uninformed
    (prior-rejection pool) and in the flow phase: the handler's checkpoint, resumed, must continue to a consistent run in which
    every recorded and every live point carries the model's own log-likelihood (seeded change C13-hC / C09-hB: the rejection
    proposal announced `populated = True` before evaluating the likelihoods, so the resumed run handed out a pool of NaNs)."""
    import logging
    from nessai.flowsampler import FlowSampler
    from nessai.proposal.flowproposal import FlowProposal
    from nessai.proposal.rejection import RejectionProposal
    logging.disable(logging.CRITICAL)
    nlive = 50
    kw0 = dict(nlive=nlive, plot=False, seed=5, maximum_uninformed=60, checkpoint_on_iteration=True, checkpoint_interval=10 ** 9,
              signal_handling=False, flow_config=dict(n_blocks=2, n_neurons=4), training_config=dict(max_epochs=5),
              poolsize=100, log_on_iteration=False)
    try:
        from nessai.proposal.analytic import AnalyticProposal
        for phase, cls in (("uninformed", RejectionProposal), ("flow", FlowProposal), ("analytic", AnalyticProposal)):
            # `analytic_priors=True`: the pool is model.new_point(N), all of it evaluated (seeded change C09-iA: AnalyticProposal
            # announced `populated = True` before evaluating the pool's likelihoods)
            kw = dict(kw0, analytic_priors=True, uninformed_proposal_kwargs=dict(poolsize=40), maximum_uninformed=10 ** 9,
                      uninformed_acceptance_threshold=0.0) if phase == "analytic" else dict(kw0)
            d = tempfile.mkdtemp(prefix="c13p_")
            state = {"in": False, "armed": True, "fired": False, "fs": None}
            orig_pop = cls.__dict__["populate"]

            state["calls"] = 0
            # the first prior-rejection pool is drawn at iteration 0, where a resumed run starts over anyway: take the second
            # (analytic: pools of 40 for 50 live points — the first two calls fill the initial live set)
            want_call = {"flow": 1, "uninformed": 2, "analytic": 4}[phase]

            def populate(self_, *a, _o=orig_pop, _cls=cls, **k):
                mine = type(self_) is _cls
                if mine:
                    state["calls"] += 1
                    mine = state["calls"] >= want_call
                if mine:
                    state["in"] = True
                try:
                    return _o(self_, *a, **k)
                finally:
                    if mine:
                        state["in"] = False

            model = _gauss_model()
            orig_ll = model.log_likelihood

            def ll(x):
                if state["in"] and state["armed"]:
                    state["armed"] = False
                    state["fired"] = True
                    ns = state["fs"].ns
                    ns.close_pool(code=signal.SIGTERM)       # what FlowSampler.safe_exit does: close pool, checkpoint, exit
                    ns.checkpoint()
                    raise Interrupted()
                return orig_ll(x)

            model.log_likelihood = ll
            case = {"phase": phase, "interrupt": f"likelihood evaluation inside call {want_call} of {cls.__name__}.populate", "nlive": nlive}
            try:
                cls.populate = populate
                fs = FlowSampler(model, output=d, resume=False, max_iteration=200, **kw)
                state["fs"] = fs
                try:
                    fs.run(plot=False, save=False)
                except Interrupted:
                    pass
            finally:
                cls.populate = orig_pop
            if not state["fired"]:
                ctx.case(("pool-interrupt", phase), False, kind="pool-interrupt:not-reached")
                shutil.rmtree(d, ignore_errors=True)
                continue
            try:
                fresh = _gauss_model()
                f3 = FlowSampler(fresh, output=d, resume=True, **kw)
                f3.ns.max_iteration = f3.ns.iteration + 40
                f3.ns.initialise()
                handed = {"n": 0, "bad": 0}
                from unittest import mock
                patches = []
                for pc in {type(p) for p in (f3.ns._uninformed_proposal, f3.ns._flow_proposal, f3.ns.proposal) if p is not None}:
                    od = pc.draw                                   # patched on the CLASS: instance attributes would be pickled

                    def draw(self_, old, _od=od):
                        pt = _od(self_, old)
                        handed["n"] += 1
                        with np.errstate(all="ignore"):
                            if not (float(fresh.log_likelihood(pt)) == float(pt["logL"])):
                                handed["bad"] += 1
                        return pt
                    patches.append(mock.patch.object(pc, "draw", draw))
                for pp in patches:
                    pp.start()
                try:
                    f3.ns.nested_sampling_loop()
                finally:
                    for pp in patches:
                        pp.stop()
                if handed["bad"]:
                    ctx.oracle_fail(f"{cls.__name__}.populate:interrupt-during-likelihood-evaluation:pool-logL",
                                    f"{phase} phase, signal while the pool's likelihoods were evaluated, checkpoint, resume: {handed['bad']} of "
                                    f"{handed['n']} points handed out by the restored pool carry a log-likelihood that is not the model's", case)
                case = {**case, "points_handed_out_after_resume": handed["n"]}
                st = real_state(f3.ns)
                ok = consistent({**st, "live": [(k, i) for k, i in st["live"]]}, nlive)
                pts = np.concatenate([np.asarray(f3.ns.nested_samples), np.asarray(f3.ns.live_points)]) \
                    if f3.ns.live_points is not None else np.asarray(f3.ns.nested_samples)
                with np.errstate(all="ignore"):
                    bad = int(np.count_nonzero(~(fresh.log_likelihood(pts) == pts["logL"])))
                if not ok:
                    # the pool is populated from inside consume_sample, after state.increment and before the insertion index is
                    # appended: the counts are those of the known window (F4)
                    ctx.oracle_fail(KEY_F4, f"{phase} phase, signal while the pool's likelihoods were evaluated, checkpoint, resume, "
                                    "40 iterations: " + "; ".join(reasons(st, nlive)), case)
                if bad:
                    ctx.oracle_fail(f"{cls.__name__}.populate:interrupt-during-likelihood-evaluation:stored-logL",
                                    f"{phase} phase, signal while the pool's likelihoods were evaluated, checkpoint, resume, 40 iterations: "
                                    f"{bad} recorded/live points whose stored logL is not the model's", case)
                ctx.case(("pool-interrupt", phase), True, case, kind=f"pool-interrupt:{phase}:{'ok' if ok and not bad else 'inconsistent'}")
            except Exception as e:  # noqa
                ctx.oracle_fail(f"{cls.__name__}.populate:interrupt-during-likelihood-evaluation:resume-raised",
                                f"{phase} phase: the checkpoint written by the handler cannot be resumed/continued: {type(e).__name__}: {e}", case)
            finally:
                shutil.rmtree(d, ignore_errors=True)
    finally:
        logging.disable(logging.NOTSET)


def weights_write_interrupt_test(ctx):
    """a signal while the FLOW WEIGHTS of the second training are being written (half of the file on disk), in the default layout with
    one directory per training (`save_training_data=True`: no `.old` next to the file): the handler's checkpoint, resumed, must carry
    the weights of a COMPLETED training — the previous ones (or the new ones), never an untrained flow (seeded change C11-jA:
    `save_weights` recorded `weights_file` before writing, so the checkpoint named the torn file and resume silently went on with
    an untrained flow)."""
    import io
    import logging
    import torch
    from nessai.flowsampler import FlowSampler
    logging.disable(logging.CRITICAL)
    d = tempfile.mkdtemp(prefix="c13w_")
    kw = dict(nlive=60, plot=False, proposal_plots=False, seed=7, save_training_data=True, maximum_uninformed=60, training_frequency=60,
              cooldown=30, checkpoint_interval=10 ** 9, poolsize=120, signal_handling=False, log_on_iteration=False,
              flow_config=dict(n_blocks=2, n_neurons=4), training_config=dict(max_epochs=5, patience=3))
    case = {"kind": "weights-write-interrupt", "interrupt": "half of the second training's model.pt written"}
    real_save = torch.save
    st = {"n": 0, "fs": None, "complete": []}

    def torn_save(obj, f, *a, **k):
        if not (isinstance(f, str) and f.endswith(".pt")):
            return real_save(obj, f, *a, **k)
        st["n"] += 1
        if st["n"] < 2:
            st["complete"].append({kk: v.clone() for kk, v in obj.items()})
            return real_save(obj, f, *a, **k)
        buf = io.BytesIO()
        real_save(obj, buf, *a, **k)
        data = buf.getvalue()
        with open(f, "wb") as fh:
            fh.write(data[: len(data) // 2])
        st["new"] = {kk: v.clone() for kk, v in obj.items()}
        ns = st["fs"].ns
        ns.close_pool(code=signal.SIGTERM)          # what FlowSampler.safe_exit does: close pool, checkpoint, exit
        ns.checkpoint()
        raise Interrupted()

    try:
        torch.save = torn_save
        try:
            fs = FlowSampler(_gauss_model(), output=d, resume=False, max_iteration=400, **kw)
            st["fs"] = fs
            try:
                fs.run(plot=False, save=False)
            except Interrupted:
                pass
        finally:
            torch.save = real_save
        if st["n"] < 2:
            ctx.case(("weights-write-interrupt",), False, case, kind="weights-write-interrupt:not-reached")
            return
        try:
            f3 = FlowSampler(_gauss_model(), output=d, resume=True, **kw)
            loaded = f3.ns._flow_proposal.flow.model.state_dict()
            same = lambda ref: set(loaded) == set(ref) and all(torch.equal(loaded[k], ref[k]) for k in ref)   # noqa
            ok = any(same(r) for r in st["complete"]) or same(st["new"])
            if not ok:
                ctx.oracle_fail("FlowModel.save_weights:interrupt-during-write:resumed-weights",
                                "signal with half of the second training's weights file written, checkpoint, resume: the resumed flow carries "
                                "neither the weights of the completed first training nor those of the second "
                                f"(recorded weights file: {getattr(f3.ns._flow_proposal, 'weights_file', None)})", case)
            ctx.case(("weights-write-interrupt", int(f3.ns.iteration)), True, case, kind="weights-write-interrupt:" + ("ok" if ok else "torn"))
        except Exception as e:  # noqa
            ctx.oracle_fail("FlowModel.save_weights:interrupt-during-write:resume-raised",
                            f"the checkpoint written by the handler cannot be resumed: {type(e).__name__}: {e}", case)
    finally:
        torch.save = real_save
        shutil.rmtree(d, ignore_errors=True)
        logging.disable(logging.NOTSET)


def exit_code_test(ctx):
    """a real signal delivered to a child process running FlowSampler: exit code = configured, checkpoint written.
    Every signal the handler is installed for x several configured codes, including the legal value 0 (seeded change
    C13-c: `exit_code or 130`)."""
    combos = [(signal.SIGTERM, 77), (signal.SIGTERM, 0), (signal.SIGINT, 0), (signal.SIGALRM, 1), (signal.SIGINT, 130),
              (signal.SIGALRM, 0)]
    if not ctx.quick:
        combos += [(signal.SIGTERM, 255), (signal.SIGINT, 2), (signal.SIGALRM, 64)]
    for sig, want in combos:
        tmp = tempfile.mkdtemp(prefix="c13e_")
        try:
            pid = os.fork()
            if pid == 0:
                try:
                    import logging
                    logging.disable(logging.CRITICAL)
                    from nessai.flowsampler import FlowSampler
                    fs = FlowSampler(_model(), output=tmp, nlive=10, resume=False, plot=False, exit_code=want, signal_handling=True,
                                     uninformed_proposal=Scripted, uninformed_proposal_kwargs={"queue": [(k + 2, k + 1) for k in range(10)]},
                                     maximum_uninformed=np.inf, seed=1, log_on_iteration=False)
                    fs.ns.initialise(live_points=True)
                    os.kill(os.getpid(), sig)
                    for _ in range(1000):
                        pass
                    os._exit(3)
                except SystemExit as e:
                    os._exit(int(e.code) if isinstance(e.code, int) else (0 if e.code is None else 4))
                except BaseException:
                    import traceback
                    traceback.print_exc()
                    os._exit(5)
            _, status = os.waitpid(pid, 0)
            code = os.waitstatus_to_exitcode(status)
            has_ckpt = any(f.endswith(".pkl") for f in os.listdir(tmp))
            case = {"signal": signal.Signals(sig).name, "configured_exit_code": want, "observed": code, "checkpoint_written": has_ckpt}
            if code != want or not has_ckpt:
                ctx.oracle_fail("FlowSampler.safe_exit:exit-code",
                                f"{signal.Signals(sig).name}: handler exited with {code} (configured {want}), checkpoint written: {has_ckpt}", case)
            ctx.case(("exit-code", int(sig), want, code), True, case, kind="exit-code")
        finally:
            shutil.rmtree(tmp, ignore_errors=True)


def double_signal_test(ctx):
    """a SECOND termination signal arriving while the handler of the first is writing its checkpoint ("at any point" includes
    the handler's own run time; schedulers escalate SIGTERM -> SIGINT, users hit Ctrl-C twice).  The process must still exit
    with the configured code and leave a complete checkpoint that loads (seeded change C13-hA: a `sys.exit` in a re-entrancy
    guard unwound the first handler in the middle of the dump)."""
    combos = [(signal.SIGTERM, signal.SIGINT, 77), (signal.SIGINT, signal.SIGINT, 0)]
    if not ctx.quick:
        combos += [(signal.SIGALRM, signal.SIGTERM, 3), (signal.SIGTERM, signal.SIGTERM, 130)]
    for sig1, sig2, want in combos:
        tmp = tempfile.mkdtemp(prefix="c13d_")
        try:
            pid = os.fork()
            if pid == 0:
                try:
                    import logging
                    import pickle as _pk
                    logging.disable(logging.CRITICAL)
                    import nessai.utils.io as nio
                    from nessai.flowsampler import FlowSampler
                    fired = []

                    class Mod:
                        """stands for the pickle module handed to safe_file_dump.  `pickle.dump` is one C call (Python-level
                        handlers run between bytecodes), so the second signal is delivered at the first point where a handler
                        can really run: right after the dump returned, before the temporary file is moved into place"""
                        @staticmethod
                        def dump(data, file):
                            _pk.dump(data, file)
                            if not fired:
                                fired.append(True)
                                os.kill(os.getpid(), sig2)

                    orig = nio.safe_file_dump

                    def dump(data, filename, module, save_existing=False):
                        return orig(data, filename, Mod, save_existing=save_existing)

                    import nessai.samplers.base as nb
                    nb.safe_file_dump = dump
                    fs = FlowSampler(_model(), output=tmp, nlive=10, resume=False, plot=False, exit_code=want, signal_handling=True,
                                     uninformed_proposal=Scripted, uninformed_proposal_kwargs={"queue": [(k + 2, k + 1) for k in range(10)]},
                                     maximum_uninformed=np.inf, seed=1, log_on_iteration=False)
                    fs.ns.initialise(live_points=True)
                    os.kill(os.getpid(), sig1)
                    for _ in range(1000):
                        pass
                    os._exit(3)
                except SystemExit as e:
                    os._exit(int(e.code) if isinstance(e.code, int) else (0 if e.code is None else 4))
                except BaseException:
                    os._exit(5)
            _, status = os.waitpid(pid, 0)
            code = os.waitstatus_to_exitcode(status)
            files = sorted(os.listdir(tmp))
            loads = False
            for f in files:
                if f.endswith(".pkl"):
                    try:
                        with open(os.path.join(tmp, f), "rb") as fh:
                            pickle.load(fh)
                        loads = True
                    except Exception:  # noqa
                        pass
            case = {"first": signal.Signals(sig1).name, "second_during_checkpoint": signal.Signals(sig2).name, "configured_exit_code": want,
                    "observed": code, "files": files, "complete_checkpoint": loads}
            if code != want or not loads:
                ctx.oracle_fail("FlowSampler.safe_exit:second-signal-during-checkpoint",
                                f"{case['first']} then {case['second_during_checkpoint']} while the checkpoint was being written: exit code "
                                f"{code} (configured {want}), complete checkpoint on disk: {loads} (files {files})", case)
            ctx.case(("double-signal", int(sig1), int(sig2), want), True, case, kind="double-signal")
        finally:
            shutil.rmtree(tmp, ignore_errors=True)


def populate_interrupt_test(ctx):
    """a signal while the INITIAL live points are being drawn (populate_live_points): the handler's checkpoint is taken
    after the k-th prior draw; the resumed run must start from a full, sorted, duplicate-free live set at iteration 0 and be
    able to iterate (seeded change C13-d: the half-filled array was bound to self.live_points before it was complete, so the
    checkpoint carried NaN rows and the resume skipped the population)"""
    from nessai.samplers.nestedsampler import NestedSampler
    nlive = 10
    for k in ctx.scale([1, 4, 9], [1, 2, 3, 5, 8, 9, 10]):
        tmp = tempfile.mkdtemp(prefix="c13p_")
        case = {"layer": "populate", "nlive": nlive, "interrupt_after_initial_draw": k}
        try:
            init = [(j + 1, j + 1) for j in range(nlive)]                 # (key, id): distinct likelihoods 1..n
            m = _model()
            ns = NestedSampler(m, nlive=nlive, output=tmp, resume_file="ckpt.pkl", plot=False, checkpointing=True,
                               checkpoint_interval=10 ** 9, checkpoint_on_iteration=True, seed=1,
                               uninformed_proposal=Scripted, uninformed_proposal_kwargs={"queue": list(init)},
                               maximum_uninformed=np.inf, uninformed_acceptance_threshold=0.0, log_on_iteration=False)
            ns.initialise(live_points=False)
            count = {"n": 0}
            orig_draw = Scripted.draw

            def draw(self_, old):
                out = orig_draw(self_, old)
                count["n"] += 1
                if count["n"] == k:
                    ns.close_pool(code=signal.SIGTERM)
                    ns.checkpoint()                 # what FlowSampler.safe_exit does before exiting
                    raise Interrupted()
                return out
            Scripted.draw = draw
            try:
                try:
                    ns.populate_live_points()
                except Interrupted:
                    pass
            finally:
                Scripted.draw = orig_draw
            if not os.path.exists(os.path.join(tmp, "ckpt.pkl")):
                ctx.oracle_fail("NestedSampler.populate_live_points:interrupt:no-checkpoint",
                                "the handler's checkpoint request during the initial population left no checkpoint file", case)
                continue
            try:
                with open(os.path.join(tmp, "ckpt.pkl"), "rb") as f:
                    ns2 = pickle.load(f)
                ns2 = NestedSampler.resume_from_pickled_sampler(ns2, _model())
                # a fresh process draws the initial points again from its own proposal
                ns2._uninformed_proposal.queue = [(j + 1, j + 101) for j in range(nlive)] + [(20, 300)]
                ns2.initialise(live_points=True)
                ns2.check_resume()
                st0 = state_of(ns2)
                ok0 = consistent(st0, nlive) and st0["iter"] == 0
                why = "; ".join(reasons(st0, nlive)) if not ok0 else ""
                live = ns2.live_points
                if live is None or len(live) != nlive or np.any(np.isnan(live["logL"])):
                    ok0, why = False, (why + "; " if why else "") + "the live set holds NaN / missing points"
                if ok0:
                    ns2.check_state()
                    ns2.consume_sample()
                    st1 = state_of(ns2)
                    if not consistent(st1, nlive):
                        ok0, why = False, "after one iteration: " + "; ".join(reasons(st1, nlive))
            except Exception as e:  # noqa
                ctx.oracle_fail("NestedSampler.populate_live_points:resume-after-signal:raised",
                                f"resuming from the checkpoint the handler wrote during the initial population failed: "
                                f"{type(e).__name__}: {e}", case)
                continue
            if not ok0:
                ctx.oracle_fail("NestedSampler.populate_live_points:interrupt-during-initial-population",
                                f"a signal after initial draw {k} of {nlive} leaves a checkpoint that resumes to an inconsistent "
                                f"state: {why}", dict(case, state=fmt_state(st0, nlive)))
            ctx.case(("populate-interrupt", k), True, case if k == 4 else None, kind="populate-interrupt")
        finally:
            shutil.rmtree(tmp, ignore_errors=True)


def plot_signal_test(ctx):
    """plot=True: a real signal delivered WHILE the periodic state / trace plots of update_state are being drawn must still end
    the process with the configured code (seeded change C13-eA: the plot calls were wrapped in a bare `except:` which
    swallowed the handler's SystemExit)"""
    for sig, want, where in ((signal.SIGTERM, 9, "plot_state"), (signal.SIGINT, 0, "plot_trace")):
        tmp = tempfile.mkdtemp(prefix="c13q_")
        try:
            pid = os.fork()
            if pid == 0:
                try:
                    import logging
                    logging.disable(logging.CRITICAL)
                    from nessai.flowsampler import FlowSampler
                    from nessai.samplers.nestedsampler import NestedSampler
                    nlive = 10
                    queue = [(k + 1, k + 1) for k in range(nlive)] + [(100 + k, 100 + k) for k in range(3 * nlive)]
                    fs = FlowSampler(_model(), output=tmp, nlive=nlive, resume=False, plot=True, exit_code=want, signal_handling=True,
                                     uninformed_proposal=Scripted, uninformed_proposal_kwargs={"queue": queue},
                                     maximum_uninformed=np.inf, seed=1, log_on_iteration=False)
                    fired = []

                    def send(self_, *a, **k):
                        if not fired:
                            fired.append(True)
                            os.kill(os.getpid(), sig)
                            for _ in range(1000):
                                pass
                    setattr(NestedSampler, where, send)
                    other = "plot_trace" if where == "plot_state" else "plot_state"
                    setattr(NestedSampler, other, lambda self_, *a, **k: None)
                    ns = fs.ns
                    ns.initialise(live_points=True)
                    for _ in range(2 * nlive + 1):
                        ns.check_state()
                        ns.consume_sample()
                        ns.update_state()
                    os._exit(3 if fired else 6)
                except SystemExit as e:
                    os._exit(int(e.code) if isinstance(e.code, int) else (0 if e.code is None else 4))
                except BaseException:
                    import traceback
                    traceback.print_exc()
                    os._exit(5)
            _, status = os.waitpid(pid, 0)
            code = os.waitstatus_to_exitcode(status)
            case = {"signal": signal.Signals(sig).name, "during": "NestedSampler." + where, "configured_exit_code": want, "observed": code}
            if code == 6:
                ctx.broken("correspondence: the plotting hook of the signal-during-plot test was never reached", repr(case))
            elif code != want:
                ctx.oracle_fail("FlowSampler.safe_exit:exit-code:signal-during-plot",
                                f"{signal.Signals(sig).name} while {where} was running: the process ended with {code} "
                                f"(3 = it carried on sampling), configured exit code {want}", case)
            ctx.case(("plot-signal", int(sig), where), True, case, kind="exit-code:during-plot")
        finally:
            shutil.rmtree(tmp, ignore_errors=True)


def ins_test(ctx):
    """INS: the handler's checkpoint request in the middle of an iteration leaves the boundary checkpoint intact"""
    from unittest import mock
    from . import c03
    from nessai.samplers.importancesampler import ImportanceNestedSampler
    ImportanceNestedSampler.add_fields()
    tmp = tempfile.mkdtemp(prefix="c13i_")
    try:
        digests = []
        orig = ImportanceNestedSampler.add_and_update_points

        def wrapped(self_, n):
            path = os.path.join(tmp, "ckpt.pkl")
            d0 = hashlib.sha256(open(path, "rb").read()).hexdigest() if os.path.exists(path) else None
            # what the signal handler does: the REAL FlowSampler.terminate_run (close the pool, ask the sampler to checkpoint)
            # on a stand-in whose `.ns` is this sampler (seeded change C13-eB: terminate_run passed force=True and the
            # importance sampler's guard let forced non-periodic checkpoints through)
            from nessai.flowsampler import FlowSampler
            import types
            FlowSampler.terminate_run(types.SimpleNamespace(ns=self_), code=signal.SIGTERM)
            orig(self_, n)
            self_.checkpoint()
            d1 = hashlib.sha256(open(path, "rb").read()).hexdigest() if os.path.exists(path) else None
            digests.append((self_.iteration, d0, d1))

        with mock.patch.object(ImportanceNestedSampler, "add_and_update_points", wrapped):
            c03.run_fake(c03.CONFIGS[0], 3, tmp)
        for it, d0, d1 in digests:
            case = {"sampler": "ImportanceNestedSampler", "iteration": it}
            if d0 != d1:
                ctx.oracle_fail("ImportanceNestedSampler.checkpoint:mid-iteration-write",
                                "a handler checkpoint in the middle of an iteration changed the iteration-boundary checkpoint file", case)
            ctx.case(("ins", it), d0 is not None, case if it == 1 else None, kind="ins-handler")
    finally:
        from nessai import config
        config.livepoints.reset()
        shutil.rmtree(tmp, ignore_errors=True)


def search(ctx):
    pass


def replay(ctx, obj):
    c = obj["case"]
    if "case" in c and "nlive" not in c:
        c = c["case"]
    try:
        res = interrupt_run(ctx, c["nlive"], [tuple(t) for t in c["init"]], [tuple(t) for t in c["pre"]], tuple(c["cand"]),
                            tuple(c["cand2"]), c["line"], c["fn"], c["mutating_statements_done"])
    except ResumeFailed as e:
        ctx.oracle_fail(obj.get("key", "NestedSampler:resume-after-signal:raised"), str(e), c)
        ctx.case("replay", True, c)
        return
    if res is None:
        ctx.case("replay", False)
        return
    before, pickled, resumed, final = res
    if not consistent(resumed, c["nlive"]):
        done = c["mutating_statements_done"]
        key = KEY_F4 if in_window(done) else f"NestedSampler.{c['fn']}:interrupt-outside-known-window"
        ctx.oracle_fail(key, "; ".join(reasons(resumed, c["nlive"])), c)
    ctx.case("replay", True, c)
