import NessaiVerif.Model.LivePoint
import NessaiVerif.Proofs.LivePoint
import NessaiVerif.Gen.LivePointTx
/-
C18 — live-point conversions preserve names, order, values and defaults.
Property theorems only (helper lemmas live in Proofs/LivePoint.lean).

Vocabulary (Model/LivePoint.lean, Proofs/LivePoint.lean):
* `canon cfg r names nsp data` — THE live-point array for parameter names `names` and parameter
  records `data`: fields `names ++ [logP, logL, it] ++ registered extras` (just `names` when
  `nsp = false`), record `i` = `data[i] ++ [NaN, NaN, 0] ++ registered defaults`.
* `Fresh r names nsp` — the names are distinct and (when non-sampling fields are requested) none of
  them is `logP`, `logL`, `it` or a registered extra.  This is exactly the condition under which
  NumPy accepts the dtype: see `names_must_be_fresh` / `array_roundtrip_fails_without`.
* `LP.WF` — records have one value per field, field names distinct.
All theorems hold for every value type `V` (floats incl. NaN payloads, ±inf, … are just values:
no arithmetic or comparison is ever applied to them), every number of names ≥ 1, every number of
points including 0 and 1, and every registry state `r` (hence after every add/reset history).
-/
namespace NessaiVerif.C18
open NessaiVerif.LivePoint

variable {V : Type}

/-! ## plain arrays -/

/-- `numpy_array_to_live_points` on an `n × k` array (any `n`, including 0 and 1) returns exactly
the canonical array: the given names in the given order followed by the non-sampling fields, the
given values in place, defaults elsewhere. -/
theorem array_to_live_points (cfg : Cfg V) (r : Registry V) (names : List String) (nsp : Bool)
    (rows : List (List V)) (hf : Fresh r names nsp) (hne : names ≠ [])
    (hr : ∀ row ∈ rows, row.length = names.length) :
    numpyArrayToLivePoints cfg r (.d2 names.length rows) names nsp
      = .ok (canon cfg r names nsp rows) := by
  have hk : 0 < names.length := List.length_pos_iff.mpr hne
  cases rows with
  | nil =>
    simp only [numpyArrayToLivePoints, NpArr.size, List.length_nil, Nat.zero_mul, if_true]
    rw [emptyStructured_ok cfg r 0 names nsp hf (Or.inl rfl)]
    simp [canon]
  | cons row rest =>
    have hsize : (NpArr.d2 names.length (row :: rest)).size ≠ 0 := by
      simp only [NpArr.size, List.length_cons]
      exact Nat.mul_ne_zero (by omega) (by omega)
    simp only [numpyArrayToLivePoints, hsize, if_false, NpArr.rows, NpArr.ncols]
    rw [emptyStructured_ok cfg r _ names nsp hf (Or.inr hne)]
    simp only [Nat.lt_irrefl, if_false, canon]
    congr 2
    apply List.map_congr_left
    intro d hd
    rw [List.take_of_length_le (by rw [hr d hd]; exact Nat.le_refl _)]

/-- a 1-d array is one point: same result as the `1 × k` array -/
theorem array_1d_is_one_point (cfg : Cfg V) (r : Registry V) (names : List String) (nsp : Bool)
    (xs : List V) (hf : Fresh r names nsp) (hne : names ≠ []) (hx : xs.length = names.length) :
    numpyArrayToLivePoints cfg r (.d1 xs) names nsp = .ok (canon cfg r names nsp [xs]) := by
  have h2 := array_to_live_points cfg r names nsp [xs] hf hne (by simpa using hx)
  have hk : 0 < names.length := List.length_pos_iff.mpr hne
  have hsize : (NpArr.d1 xs).size ≠ 0 := by simp only [NpArr.size]; omega
  have hsize2 : (NpArr.d2 names.length [xs]).size ≠ 0 := by simp [NpArr.size]; omega
  simp only [numpyArrayToLivePoints, hsize, hsize2, if_false, NpArr.rows, NpArr.ncols, hx] at h2 ⊢
  exact h2

/-- an empty array (shape `(0,)`) gives the empty live-point array WITH the full dtype -/
theorem array_empty (cfg : Cfg V) (r : Registry V) (names : List String) (nsp : Bool)
    (hf : Fresh r names nsp) :
    numpyArrayToLivePoints cfg r (.d1 []) names nsp = .ok (canon cfg r names nsp []) := by
  simp only [numpyArrayToLivePoints, NpArr.size, List.length_nil, if_true]
  rw [emptyStructured_ok cfg r 0 names nsp hf (Or.inl rfl)]
  simp [canon]

/-- **Round trip array → live points → array**: same values, same order, for every number of
points; the live points carry the names in order followed by the non-sampling fields. -/
theorem array_roundtrip (cfg : Cfg V) (r : Registry V) (names : List String) (nsp : Bool)
    (rows : List (List V)) (hf : Fresh r names nsp) (hne : names ≠ [])
    (hr : ∀ row ∈ rows, row.length = names.length) :
    ∃ lp, numpyArrayToLivePoints cfg r (.d2 names.length rows) names nsp = .ok lp
      ∧ lp.fields = names ++ nsNames r nsp
      ∧ lp.rows.length = rows.length
      ∧ livePointsToArray lp (some names) = .ok (names.length, rows) :=
  ⟨_, array_to_live_points cfg r names nsp rows hf hne hr, rfl, by simp [canon],
    canon_toArray cfg r names nsp rows hf hne hr⟩

/-- `live_points_to_array(x, names)` for ANY selection of distinct existing fields, in any order:
column `j` of the result is field `names[j]`, for every point. -/
theorem to_array_selects_fields (lp : LP V) (hw : lp.WF) (sel : List String) (hne : sel ≠ [])
    (hnd : sel.Nodup) (hsub : ∀ f ∈ sel, f ∈ lp.fields) :
    ∃ out, livePointsToArray lp (some sel) = .ok (sel.length, out)
      ∧ out.length = lp.rows.length
      ∧ ∀ (i j : Nat) (f : String), sel[j]? = some f →
          (out[i]?).bind (fun (row : List V) => row[j]?) = getField lp f i := by
  have hscan := scanNames_none lp.fields sel [] hsub hnd (by simp)
  refine ⟨lp.rows.map fun row => sel.filterMap fun f => row[lp.fields.idxOf f]?, ?_, by simp, ?_⟩
  · cases sel with
    | nil => exact absurd rfl hne
    | cons a l => simp only [livePointsToArray, hscan]
  · intro i j f hf
    have hmem : f ∈ lp.fields := hsub f (List.mem_of_getElem? hf)
    simp only [getField, List.getElem?_map]
    cases hrow : lp.rows[i]? with
    | none => rfl
    | some row =>
      have hlen : row.length = lp.fields.length := hw.rect row (List.mem_of_getElem? hrow)
      have hall : ∀ a ∈ sel, (row[lp.fields.idxOf a]?).isSome = true := by
        intro a ha
        have : lp.fields.idxOf a < row.length := by
          rw [hlen]; exact List.idxOf_lt_length_iff.mpr (hsub a ha)
        simp [this]
      simp [getElem?_filterMap_all_some sel _ hall j, hf, hmem]

/-- The freshness hypothesis is needed and is what the code enforces: a repeated parameter name,
or a parameter called like a non-sampling field (`logL`, `it`, a registered extra), makes
`np.dtype` raise `ValueError` — nothing is silently overwritten. -/
theorem names_must_be_fresh (cfg : Cfg V) (r : Registry V) (names : List String) (nsp : Bool)
    (a : NpArr V) (h : ¬ Fresh r names nsp) :
    numpyArrayToLivePoints cfg r a names nsp = .error .valueErr := by
  have hd := getDtype_err cfg r names nsp h
  unfold numpyArrayToLivePoints
  split
  · simp [emptyStructured, hd]
  · simp [emptyStructured, hd]

/-- concrete instances of the excluded inputs: a duplicated name, the reserved name `logL`, a
registered extra — all rejected; `logL` is an ordinary name when non-sampling fields are off. -/
theorem array_roundtrip_fails_without :
    let c : Cfg Int := { nan := -1, it0 := 0 }
    (numpyArrayToLivePoints c ⟨[]⟩ (.d2 2 [[1, 2]]) ["x", "x"] true).toOption = none
    ∧ (numpyArrayToLivePoints c ⟨[]⟩ (.d2 2 [[1, 2]]) ["x", "logL"] true).toOption = none
    ∧ (numpyArrayToLivePoints c ⟨[("q", 5)]⟩ (.d2 2 [[1, 2]]) ["x", "q"] true).toOption = none
    ∧ (numpyArrayToLivePoints c ⟨[]⟩ (.d2 2 [[1, 2]]) ["x", "logL"] false).toOption
        = some ⟨["x", "logL"], 2, [[1, 2]]⟩ := by decide +kernel

/-! ## tuples -/

/-- `parameters_to_live_point`: one point holding the values in order, defaults after them;
read back by name it gives the tuple. -/
theorem tuple_roundtrip (cfg : Cfg V) (r : Registry V) (names : List String) (nsp : Bool)
    (ps : List V) (hf : Fresh r names nsp) (hne : names ≠ []) (hp : ps.length = names.length) :
    parametersToLivePoint cfg r ps names nsp = .ok (canon cfg r names nsp [ps])
      ∧ livePointsToArray (canon cfg r names nsp [ps]) (some names) = .ok (names.length, [ps]) := by
  refine ⟨?_, canon_toArray cfg r names nsp [ps] hf hne (by simpa using hp)⟩
  have hps : ps.isEmpty = false := by
    cases ps with
    | nil => exact absurd (List.eq_nil_of_length_eq_zero hp.symm) hne
    | cons _ _ => rfl
  simp [parametersToLivePoint, hps, getDtype_ok cfg r names nsp hf, length_tail, hp, canon]

/-- the empty tuple gives the empty array with the full dtype -/
theorem tuple_empty (cfg : Cfg V) (r : Registry V) (names : List String) (nsp : Bool)
    (hf : Fresh r names nsp) :
    parametersToLivePoint cfg r [] names nsp = .ok (canon cfg r names nsp []) := by
  simp only [parametersToLivePoint, List.isEmpty_nil, if_true]
  rw [emptyStructured_ok cfg r 0 names nsp hf (Or.inl rfl)]
  simp [canon]

/-! ## dictionaries -/

/-- a dictionary of scalars is one point: names in insertion order, values in place -/
theorem dict_scalars_to_live_point (cfg : Cfg V) (r : Registry V) (names : List String) (nsp : Bool)
    (vals : List V) (hf : Fresh r names nsp) (hne : names ≠ []) (hv : vals.length = names.length) :
    dictToLivePoints cfg r (names.zip (vals.map .scalar)) nsp = .ok (canon cfg r names nsp [vals]) := by
  have hkeys := keys_zip names (vals.map DVal.scalar) (by simpa using hv)
  have hall := allSome_scalars names vals hv
  cases names with
  | nil => exact absurd rfl hne
  | cons a ns =>
    cases vals with
    | nil => simp at hv
    | cons v vs =>
      simp only [List.map_cons, List.zip_cons_cons] at hkeys hall ⊢
      simp only [dictToLivePoints, hkeys, hall, List.map_cons,
        getDtype_ok cfg r (a :: ns) nsp hf, canon, List.map_nil]

/-- a dictionary of equal-length sequences (any number of points `n`, including 0 and 1) becomes
the canonical array of the transposed values -/
theorem dict_arrays_to_live_points (cfg : Cfg V) (r : Registry V) (names : List String) (nsp : Bool)
    (cols : List (List V)) (n : Nat) (hf : Fresh r names nsp) (hne : names ≠ [])
    (hc : cols.length = names.length) (hn : ∀ c ∈ cols, c.length = n) :
    dictToLivePoints cfg r (names.zip (cols.map .arr)) nsp
      = .ok (canon cfg r names nsp (transpose n cols)) := by
  have hkeys := keys_zip names (cols.map DVal.arr) (by simpa using hc)
  have hall := allSome_columns names cols n hc hn
  cases names with
  | nil => exact absurd rfl hne
  | cons a ns =>
    cases cols with
    | nil => simp at hc
    | cons c cs =>
      have hcn : c.length = n := hn c (by simp)
      simp only [List.map_cons, List.zip_cons_cons] at hkeys hall ⊢
      subst hcn
      simp only [dictToLivePoints, hkeys, hall, List.map_cons]
      by_cases h0 : c.length = 0
      · rw [h0, emptyStructured_ok cfg r 0 (a :: ns) nsp hf (Or.inl rfl)]
        simp [canon, transpose_zero]
      · rw [emptyStructured_ok cfg r c.length (a :: ns) nsp hf (Or.inr (by simp))]
        simp [canon]

/-- **Round trip dictionary → live points → dictionary** (any number of points, including 0 and
1): the same keys in the same order with the same sequences. -/
theorem dict_roundtrip (cfg : Cfg V) (r : Registry V) (names : List String) (nsp : Bool)
    (cols : List (List V)) (n : Nat) (hf : Fresh r names nsp) (hne : names ≠ [])
    (hc : cols.length = names.length) (hn : ∀ c ∈ cols, c.length = n) :
    ∃ lp, dictToLivePoints cfg r (names.zip (cols.map .arr)) nsp = .ok lp
      ∧ lp.fields = names ++ nsNames r nsp
      ∧ livePointsToDict lp (some names) = .ok (names.zip cols) := by
  refine ⟨_, dict_arrays_to_live_points cfg r names nsp cols n hf hne hc hn, rfl, ?_⟩
  have hrows := rows_of_transpose n cols hn
  rw [canon_toDict cfg r names nsp _ hf (fun row h => by rw [hrows row h, hc])]
  rw [← hc, transpose_transpose n cols hn]

/-- **Round trip live points → dictionary → live points** (any number of points, incl. 0 and 1) -/
theorem live_points_dict_roundtrip (cfg : Cfg V) (r : Registry V) (names : List String) (nsp : Bool)
    (data : List (List V)) (hf : Fresh r names nsp) (hne : names ≠ [])
    (hd : ∀ row ∈ data, row.length = names.length) :
    ∃ d, livePointsToDict (canon cfg r names nsp data) (some names) = .ok d
      ∧ dictToLivePoints cfg r (d.map fun kv => (kv.1, DVal.arr kv.2)) nsp
          = .ok (canon cfg r names nsp data) := by
  refine ⟨_, canon_toDict cfg r names nsp data hf hd, ?_⟩
  have hlen := length_transpose names.length data hd
  have hcols : ∀ c ∈ transpose names.length data, c.length = data.length := by
    intro c hc
    rw [transpose_eq_cols names.length data hd, List.mem_map] at hc
    obtain ⟨j, hj, rfl⟩ := hc
    have hj' : j < names.length := by simpa using hj
    exact length_getCol j data (fun row hr => by rw [hd row hr]; exact hj')
  have hzip : (names.zip (transpose names.length data)).map (fun kv => (kv.1, DVal.arr kv.2))
      = names.zip ((transpose names.length data).map DVal.arr) := by
    rw [List.zip_map_right]
    simp [Prod.map]
  rw [hzip, dict_arrays_to_live_points cfg r names nsp _ data.length hf hne hlen hcols,
    transpose_transpose names.length data hd]

/-- **Default-argument path, part 1 — rejected.**  `live_points_to_dict(x)` with its default
`names=None` returns ALL fields, non-sampling ones included; feeding that to
`dict_to_live_points(d)` with its default `non_sampling_parameters=True` makes `logP, logL, it, …`
occur twice in the dtype, and the conversion raises `ValueError` for every number of points
(observed on the real code).  So the selection `some names` in `live_points_dict_roundtrip`
cannot be replaced by the default: the keys of a dictionary are parameter names and must be
`Fresh` (this is `names_must_be_fresh` for dictionaries — a loud rejection, nothing is silently
overwritten). -/
theorem live_points_dict_roundtrip_fails_without (cfg : Cfg V) (r : Registry V) (names : List String)
    (data : List (List V)) (hf : Fresh r names true) (hne : names ≠ [])
    (hd : ∀ row ∈ data, row.length = names.length) :
    ∃ d, livePointsToDict (canon cfg r names true data) none = .ok d
      ∧ d.map Prod.fst = names ++ nonSamplingNames r
      ∧ dictToLivePoints cfg r (d.map fun kv => (kv.1, DVal.arr kv.2)) true = .error .valueErr := by
  have hall : (names ++ nonSamplingNames r).all (names ++ nonSamplingNames r).contains = true := by
    rw [List.all_eq_true]; intro f hf'; simpa using hf'
  have hnd : (names ++ nonSamplingNames r).Nodup := hf
  have hd1 : livePointsToDict (canon cfg r names true data) none
      = .ok ((names ++ nonSamplingNames r).map fun f =>
          (f, getCol ((names ++ nonSamplingNames r).idxOf f) (data.map (· ++ tail cfg r true)))) := by
    simp only [livePointsToDict, canon, nsNames, if_true, hall, eraseDups_of_nodup _ hnd]
  refine ⟨_, hd1, ?_, ?_⟩
  · simp [List.map_map, Function.comp_def]
  · have hnot : ¬ Fresh r (names ++ nonSamplingNames r) true := by
      unfold Fresh nsNames
      simp only [if_true, List.append_assoc]
      intro h
      have h2 := (List.nodup_append.mp h).2.1
      have h3 := (List.nodup_append.mp h2).2.2 "logP" (by simp [nonSamplingNames, coreNames]) "logP"
        (by simp [nonSamplingNames, coreNames])
      exact h3 rfl
    have herr := getDtype_err cfg r (names ++ nonSamplingNames r) true hnot
    cases names with
    | nil => exact absurd rfl hne
    | cons a ns =>
      simp only [List.cons_append, List.map_cons, List.map_map, Function.comp_def, dictToLivePoints,
        List.map_id', emptyStructured] at herr ⊢
      simp [herr]

/-- **Default-argument path, part 2 — works without re-adding the non-sampling fields.**  For any
well-formed array, `live_points_to_dict(x)` (all fields) followed by
`dict_to_live_points(d, non_sampling_parameters=False)` returns the same field names in the same
order with the same values for every number of points, the stored non-sampling values included.
(Only the layout differs: every field, `it` included, now has the default float dtype — `nf` is the
number of fields; on the real code `it` comes back as `0.0` instead of integer `0`.) -/
theorem live_points_dict_all_fields_roundtrip (cfg : Cfg V) (r : Registry V) (lp : LP V) (hw : lp.WF)
    (hne : lp.fields ≠ []) :
    ∃ d, livePointsToDict lp none = .ok d
      ∧ d.map Prod.fst = lp.fields
      ∧ dictToLivePoints cfg r (d.map fun kv => (kv.1, DVal.arr kv.2)) false
          = .ok ⟨lp.fields, lp.fields.length, lp.rows⟩ := by
  have hf : Fresh r lp.fields false := by unfold Fresh nsNames; simpa using hw.nodup
  obtain ⟨d, h1, h2⟩ := live_points_dict_roundtrip cfg r lp.fields false lp.rows hf hne hw.rect
  have hc : canon cfg r lp.fields false lp.rows = ⟨lp.fields, lp.fields.length, lp.rows⟩ := by
    simp [canon, nsNames, tail, nfOf]
  have hd : livePointsToDict lp none = livePointsToDict (canon cfg r lp.fields false lp.rows) (some lp.fields) := by
    rw [hc]; rfl
  rw [hc] at h2
  refine ⟨d, by rw [hd, h1], ?_, h2⟩
  have h1' := h1
  rw [canon_toDict cfg r lp.fields false lp.rows hf hw.rect] at h1'
  injection h1' with h1'
  subst h1'
  have hlen := length_transpose lp.fields.length lp.rows hw.rect
  exact keys_zip lp.fields _ hlen

/-- **Regression guard for the repaired defect** (nessai 0091c80).  A dictionary holding ONE point
as length-one sequences — exactly what `live_points_to_dict` returns for a single live point —
converts to the one-point canonical array (before the repair the `N == 1` branch handed the
sequences to `np.array([tuple])`, which raised `ValueError`). -/
theorem dict_length_one_sequences (cfg : Cfg V) (r : Registry V) (names : List String) (nsp : Bool)
    (vals : List V) (hf : Fresh r names nsp) (hne : names ≠ []) (hv : vals.length = names.length) :
    dictToLivePoints cfg r (names.zip ((vals.map fun v => [v]).map .arr)) nsp
        = .ok (canon cfg r names nsp [vals])
      ∧ dictToLivePoints cfg r (names.zip ((vals.map fun v => [v]).map .arr)) nsp
        = dictToLivePoints cfg r (names.zip (vals.map .scalar)) nsp := by
  have h1 := dict_arrays_to_live_points cfg r names nsp (vals.map fun v => [v]) 1 hf hne
    (by simpa using hv) (by intro c hc; rw [List.mem_map] at hc; obtain ⟨v, _, rfl⟩ := hc; rfl)
  have ht : transpose 1 (vals.map fun v => [v]) = [vals] := by
    have := transpose_transpose vals.length [vals] (by simp)
    have hcols : transpose vals.length [vals] = vals.map fun v => [v] := by
      simp only [transpose]
      clear this hv h1
      induction vals with
      | nil => rfl
      | cons v vs ih => simp [List.replicate_succ, ih]
    rw [hcols] at this
    simpa using this
  rw [ht] at h1
  exact ⟨h1, by rw [h1, dict_scalars_to_live_point cfg r names nsp vals hf hne hv]⟩

/-- the scalar branch is decided by the FIRST value only: a scalar first value followed by a
sequence is rejected (`ValueError`), whatever the sequence's length — model = code -/
theorem dict_scalar_then_sequence_rejected (cfg : Cfg V) (r : Registry V) (k k' : String) (x : V)
    (xs : List V) (rest : List (String × DVal V)) (nsp : Bool) :
    ∃ e, dictToLivePoints cfg r ((k, .scalar x) :: (k', .arr xs) :: rest) nsp = .error e := by
  simp only [dictToLivePoints, List.map_cons, DVal.scalar?, allSome]
  cases getDtype cfg r (k :: k' :: rest.map Prod.fst) nsp with
  | error e => exact ⟨e, rfl⟩
  | ok dt => exact ⟨.valueErr, rfl⟩

/-! ## data frames -/

/-- `dataframe_to_live_points`: the canonical array of the frame's rows under the column labels,
for every number of rows including 0 and 1 -/
theorem dataframe_to_live_points (cfg : Cfg V) (r : Registry V) (cols : List String) (nsp : Bool)
    (rows : List (List V)) (hf : Fresh r cols nsp) (hr : ∀ row ∈ rows, row.length = cols.length) :
    dataframeToLivePoints cfg r cols rows nsp = .ok (canon cfg r cols nsp rows) := by
  have hall : (rows.map (· ++ tail cfg r nsp)).all
      (fun row => row.length == (cols ++ nsNames r nsp).length) = true := by
    rw [List.all_eq_true]
    intro row hrow
    rw [List.mem_map] at hrow
    obtain ⟨d, hd, rfl⟩ := hrow
    simp [hr d hd, length_tail]
  simp only [dataframeToLivePoints, getDtype_ok cfg r cols nsp hf, hall, if_true, canon]

/-- at this level of abstraction a data frame IS the dictionary of its columns: for every number
of rows (0, 1, n) both conversions return the same array, and it agrees with the plain-array
conversion. -/
theorem dataframe_eq_dict_eq_array (cfg : Cfg V) (r : Registry V) (names : List String) (nsp : Bool)
    (rows : List (List V)) (hf : Fresh r names nsp) (hne : names ≠ [])
    (hr : ∀ row ∈ rows, row.length = names.length) :
    dataframeToLivePoints cfg r names rows nsp
        = numpyArrayToLivePoints cfg r (.d2 names.length rows) names nsp
      ∧ dataframeToLivePoints cfg r names rows nsp
          = dictToLivePoints cfg r (names.zip ((transpose names.length rows).map .arr)) nsp := by
  rw [dataframe_to_live_points cfg r names nsp rows hf hr,
    array_to_live_points cfg r names nsp rows hf hne hr]
  refine ⟨rfl, ?_⟩
  have hlen := length_transpose names.length rows hr
  have hcols : ∀ c ∈ transpose names.length rows, c.length = rows.length := by
    intro c hc
    rw [transpose_eq_cols names.length rows hr, List.mem_map] at hc
    obtain ⟨j, hj, rfl⟩ := hc
    have hj' : j < names.length := by simpa using hj
    exact length_getCol j rows (fun row h => by rw [hr row h]; exact hj')
  rw [dict_arrays_to_live_points cfg r names nsp _ rows.length hf hne hlen hcols,
    transpose_transpose names.length rows hr]

/-! ## defaults -/

/-- **Defaults.**  In every array produced by the conversions (they all return `canon`), reading
the non-sampling fields gives, for every point: `logP = NaN`, `logL = NaN`, `it = 0`, and every
registered extra field its registered default — in this order. -/
theorem defaults (cfg : Cfg V) (r : Registry V) (names : List String) (data : List (List V))
    (hf : Fresh r names true) (hd : ∀ row ∈ data, row.length = names.length) :
    livePointsToDict (canon cfg r names true data) (some (["logP", "logL", "it"] ++ r.names))
      = .ok ((["logP", "logL", "it"] ++ r.names).zip
          (([cfg.nan, cfg.nan, cfg.it0] ++ r.defaults).map (List.replicate data.length ·))) :=
  canon_defaults cfg r names data hf hd

/-- `empty_structured_array(n, names)`: `n` points, every parameter NaN, non-sampling fields at
their defaults; without non-sampling fields the dtype is exactly the names -/
theorem empty_structured (cfg : Cfg V) (r : Registry V) (n : Nat) (names : List String) (nsp : Bool)
    (hf : Fresh r names nsp) (hne : names ≠ []) :
    emptyStructured cfg r n names nsp
        = .ok (canon cfg r names nsp (List.replicate n (names.map fun _ => cfg.nan)))
      ∧ (canon cfg r names false (List.replicate n (names.map fun _ => cfg.nan))).fields = names := by
  refine ⟨emptyStructured_ok cfg r n names nsp hf (Or.inr hne), ?_⟩
  simp [canon, nsNames]

/-- every array the conversions return is well formed (one value per field, distinct fields) -/
theorem conversions_wf (cfg : Cfg V) (r : Registry V) (names : List String) (nsp : Bool)
    (data : List (List V)) (hf : Fresh r names nsp) (hd : ∀ row ∈ data, row.length = names.length) :
    (canon cfg r names nsp data).WF := canon_wf cfg r names nsp data hf hd

/-! ## the registry of extra fields -/

/-- **Registry history, part 1.**  Whatever happened before, after a reset followed by any
sequence of registrations the registry holds exactly the first registration of every name, in
registration order, with the default given at that first registration (duplicates skipped). -/
theorem registry_history_after_reset (cfg : Cfg V) (r0 : Registry V) (pre adds : List (RegOp V))
    (h : ∀ op ∈ adds, op.isReset = false) :
    (applyOps cfg r0 (pre ++ [.reset] ++ adds)).extras = firstOcc (adds.flatMap (RegOp.pairs cfg)) := by
  have : applyOps cfg r0 (pre ++ [.reset] ++ adds) = applyOps cfg ⟨[]⟩ adds := by
    simp [applyOps, List.foldl_append, applyOp, reset]
  rw [this, applyOps_noreset cfg _ adds h, foldl_addOne]
  simp [Registry.names]

/-- **Registry history, part 2.**  A reset-free history from the pristine registry. -/
theorem registry_history_no_reset (cfg : Cfg V) (adds : List (RegOp V))
    (h : ∀ op ∈ adds, op.isReset = false) :
    (applyOps cfg ⟨[]⟩ adds).extras = firstOcc (adds.flatMap (RegOp.pairs cfg)) := by
  rw [applyOps_noreset cfg _ adds h, foldl_addOne]
  simp [Registry.names]

/-- every history is of one of the two forms covered by parts 1 and 2 -/
theorem registry_history_cases (ops : List (RegOp V)) :
    (∀ op ∈ ops, op.isReset = false)
      ∨ ∃ pre adds, ops = pre ++ [.reset] ++ adds ∧ ∀ op ∈ adds, op.isReset = false := by
  induction ops with
  | nil => left; simp
  | cons op rest ih =>
    cases ih with
    | inr h =>
      obtain ⟨pre, adds, he, ha⟩ := h
      exact Or.inr ⟨op :: pre, adds, by simp [he], ha⟩
    | inl h =>
      cases op with
      | reset => exact Or.inr ⟨[], rest, by simp, h⟩
      | add ps dvs =>
        left
        intro o ho
        cases List.mem_cons.mp ho with
        | inl e => subst e; rfl
        | inr hm => exact h o hm

/-- no history ever registers a name twice -/
theorem registry_no_duplicates (cfg : Cfg V) (ops : List (RegOp V)) :
    (applyOps cfg ⟨[]⟩ ops).names.Nodup := by
  cases registry_history_cases ops with
  | inl h =>
    rw [Registry.names, registry_history_no_reset cfg ops h]
    exact firstOcc_keys_nodup _
  | inr h =>
    obtain ⟨pre, adds, he, ha⟩ := h
    rw [Registry.names, he, registry_history_after_reset cfg _ pre adds ha]
    exact firstOcc_keys_nodup _

/-- **Newly built arrays follow the registry, and nothing else does.**  After any history, an
array built now has exactly the fields `names ++ [logP, logL, it] ++ currently registered extras`
(registration order); after a reset exactly `names ++ [logP, logL, it]`.  Reading arrays back
(`livePointsToArray`, `livePointsToDict`, `unstructuredView`) does not take the registry as an
argument at all: arrays built earlier are values and are unaffected by later registry
operations (on the real code, where the registry is a mutable global, this is what the
correspondence run checks bit for bit). -/
theorem registry_new_arrays (cfg : Cfg V) (ops : List (RegOp V)) (names : List String)
    (rows : List (List V)) (hne : names ≠ [])
    (hf : Fresh (applyOps cfg ⟨[]⟩ ops) names true)
    (hr : ∀ row ∈ rows, row.length = names.length) :
    (∃ lp, numpyArrayToLivePoints cfg (applyOps cfg ⟨[]⟩ ops) (.d2 names.length rows) names true = .ok lp
      ∧ lp.fields = names ++ ["logP", "logL", "it"] ++ (applyOps cfg ⟨[]⟩ ops).names)
    ∧ (applyOps cfg ⟨[]⟩ (ops ++ [.reset])).names = [] := by
  refine ⟨⟨_, array_to_live_points cfg _ names true rows hf hne hr, ?_⟩, ?_⟩
  · simp [canon, nsNames, nonSamplingNames, coreNames]
  · simp [applyOps, List.foldl_append, applyOp, reset, Registry.names]

/-- registering an already registered name changes nothing (its first default is kept) -/
theorem registry_add_existing_skipped (cfg : Cfg V) (r : Registry V) (p : String) (dv : V)
    (h : p ∈ r.names) : add cfg r [p] (some [dv]) = r := by
  simp [add, addOne, h]

/-! ## the unstructured view -/

/-- **The view is a window (read; lens law "get").**  For a well-formed array, the view on its first `k` fields
(`k` at most the number of leading float fields — in particular the model's parameters) shows,
for every point, exactly the values of those fields in field order. -/
theorem view_is_window_get (lp : LP V) (hw : lp.WF) (k : Nat) (hk : k ≤ lp.nf) :
    unstructuredView lp (lp.fields.take k) = .ok (lp.rows.map (·.take k))
    ∧ ∀ (i j : Nat) (f : String), (lp.fields.take k)[j]? = some f →
        ((lp.rows.map (List.take k))[i]?).bind (fun (row : List V) => row[j]?) = getField lp f i := by
  refine ⟨by simp [unstructuredView, viewWidth_prefix lp hw k hk], ?_⟩
  intro i j f hf
  have hjk : j < k ∧ j < lp.fields.length := by
    rw [List.getElem?_eq_some_iff] at hf
    obtain ⟨hlt, _⟩ := hf
    simp at hlt
    omega
  have hfj : lp.fields[j]? = some f := by
    rw [List.getElem?_take] at hf
    simpa [hjk.1] using hf
  have hmem : f ∈ lp.fields := List.mem_of_getElem? hfj
  have hidx : lp.fields.idxOf f = j := by
    rw [List.getElem?_eq_some_iff] at hfj
    obtain ⟨hlt, he⟩ := hfj
    rw [← he]
    exact idxOf_getElem_of_nodup lp.fields hw.nodup j hlt
  have hc : lp.fields.contains f = true := by simpa using hmem
  simp only [getField, List.getElem?_map]
  cases lp.rows[i]? with
  | none => rfl
  | some row => simp [hmem, hidx, hjk.1]

/-- **The view is a window (write).**  Writing `v` at `[i, j]` through the view is the assignment
`x[field_j][i] = v` on the underlying array.  (These view theorems are the lens laws get / put /
frame.  In the model the view has no storage of its own, so "zero-copy" is not something a theorem
here could refute: that the real view shares memory with the array is established by the tie —
`np.shares_memory`, write-through and read-through on every generated case.) -/
theorem view_set_is_field_set (lp : LP V) (hw : lp.WF) (k : Nat) (hk : k ≤ lp.nf)
    (i j : Nat) (v : V) (hi : i < lp.rows.length) (hj : j < k) (f : String)
    (hf : lp.fields[j]? = some f) :
    viewSet lp (lp.fields.take k) i j v = .ok (setField lp f i v) := by
  have hidx : lp.fields.idxOf f = j := by
    rw [List.getElem?_eq_some_iff] at hf
    obtain ⟨hlt, he⟩ := hf
    rw [← he]
    exact idxOf_getElem_of_nodup lp.fields hw.nodup j hlt
  simp [viewSet, viewWidth_prefix lp hw k hk, hi, hj, setField, hidx]

/-- **…and touches nothing else.**  After the write, field `f` of point `i` reads `v`; every other
(field, point) pair, the field list and the number of points are unchanged. -/
theorem view_set_frame (lp : LP V) (hw : lp.WF) (f : String) (i : Nat) (v : V)
    (hf : f ∈ lp.fields) (hi : i < lp.rows.length) :
    getField (setField lp f i v) f i = some v
    ∧ (∀ f' i', f' ∈ lp.fields → (f' ≠ f ∨ i' ≠ i) →
        getField (setField lp f i v) f' i' = getField lp f' i')
    ∧ (setField lp f i v).fields = lp.fields
    ∧ (setField lp f i v).rows.length = lp.rows.length := by
  have hc : lp.fields.contains f = true := by simpa using hf
  have hlt : lp.fields.idxOf f < lp.fields.length := List.idxOf_lt_length_iff.mpr hf
  refine ⟨?_, ?_, rfl, by simp [setField]⟩
  · have hrow : lp.rows[i]? = some lp.rows[i] := by simp [hi]
    have hlen : lp.rows[i].length = lp.fields.length := hw.rect _ (List.getElem_mem hi)
    simp [getField, setField, hrow, hf, hlen, hlt]
  · intro f' i' hf' hne
    have hc' : lp.fields.contains f' = true := by simpa using hf'
    simp only [getField, setField, List.getElem?_modify, hc', if_true]
    cases hrow : lp.rows[i']? with
    | none => simp
    | some row =>
      by_cases hii : i = i'
      · have hff : f' ≠ f := by
          cases hne with
          | inl h => exact h
          | inr h => exact absurd hii.symm h
        have hidx : lp.fields.idxOf f ≠ lp.fields.idxOf f' :=
          fun e => hff (idxOf_inj_of_mem lp.fields f f' hf hf' e).symm
        simp [hii, hidx]
      · simp [hii]

/-- reading the view after a write through it shows the written value in place (put–get) -/
theorem view_put_get (lp : LP V) (hw : lp.WF) (k : Nat) (hk : k ≤ lp.nf)
    (i j : Nat) (v : V) (hi : i < lp.rows.length) (hj : j < k) :
    ∃ lp', viewSet lp (lp.fields.take k) i j v = .ok lp'
      ∧ unstructuredView lp' (lp.fields.take k)
          = .ok ((lp.rows.map (·.take k)).modify i (·.set j v)) := by
  refine ⟨{ lp with rows := lp.rows.modify i (·.set j v) }, ?_, ?_⟩
  · simp [viewSet, viewWidth_prefix lp hw k hk, hi, hj]
  · have hw' : LP.WF ({ lp with rows := lp.rows.modify i (·.set j v) } : LP V) := by
      refine ⟨hw.nodup, hw.nf_le, ?_⟩
      intro row hrow
      obtain ⟨m, hm, rfl⟩ := List.getElem_of_mem hrow
      simp only [List.getElem_modify]
      have hm' : m < lp.rows.length := by simpa using hm
      have := hw.rect _ (List.getElem_mem hm')
      by_cases h : i = m <;> simp [h, this]
    have := viewWidth_prefix _ hw' k hk
    simp only at this
    simp only [unstructuredView, this]
    rw [map_modify (·.take k) (·.set j v) (·.set j v) (fun a => List.take_set) lp.rows i]

/-- the parameters of every array the conversions build are viewable: for `lp = canon …`, the
view on `names` is exactly the parameter records that went in -/
theorem view_of_parameters (cfg : Cfg V) (r : Registry V) (names : List String) (nsp : Bool)
    (data : List (List V)) (hf : Fresh r names nsp) (hd : ∀ row ∈ data, row.length = names.length) :
    unstructuredView (canon cfg r names nsp data) names = .ok data := by
  have hw := canon_wf cfg r names nsp data hf hd
  have hk := (nfOf_le cfg r names nsp).1
  have htake : (canon cfg r names nsp data).fields.take names.length = names := by simp [canon]
  have := (view_is_window_get _ hw names.length hk).1
  rw [htake] at this
  rw [this]
  congr 1
  simp only [canon, List.map_map]
  conv => rhs; rw [← List.map_id data]
  apply List.map_congr_left
  intro d hd'
  simp [hd d hd']

/-- The view hypothesis "names = the leading fields IN FIELD ORDER" is needed: the real
`unstructured_view` ignores the order of `names` (columns always come back in field order), and
rejects any selection that is not the leading block or reaches the integer field `it`. -/
theorem view_is_window_fails_without :
    let lp : LP Int := ⟨["x", "y", "logP", "logL", "it"], 4, [[1, 2, 3, 4, 0]]⟩
    (unstructuredView lp ["y", "x"]).toOption = some [[1, 2]]
    ∧ (unstructuredView lp ["y"]).toOption = none
    ∧ (unstructuredView lp ["x", "logP"]).toOption = none
    ∧ (unstructuredView lp ["x", "y", "logP", "logL", "it"]).toOption = none := by decide +kernel

/-! ## non-vacuity -/

/-- a concrete state meeting the hypotheses of the theorems above: registry history with a
duplicate registration and a reset, two names, three points -/
example :
    let c : Cfg Int := { nan := -1, it0 := 0 }
    let r := applyOps c ⟨[]⟩ [.add ["z"] none, .reset, .add ["a", "b", "a"] (some [10, 20, 30]), .add ["c"] none]
    r.extras = [("a", 10), ("b", 20), ("c", -1)]
    ∧ Fresh r ["x", "y"] true
    ∧ (numpyArrayToLivePoints c r (.d2 2 [[1, 2], [3, 4], [5, 6]]) ["x", "y"] true).toOption
        = some ⟨["x", "y", "logP", "logL", "it", "a", "b", "c"], 4,
            [[1, 2, -1, -1, 0, 10, 20, -1], [3, 4, -1, -1, 0, 10, 20, -1], [5, 6, -1, -1, 0, 10, 20, -1]]⟩
    ∧ (dictToLivePoints c r [("x", .arr [1, 3, 5]), ("y", .arr [2, 4, 6])] true).toOption
        = (dataframeToLivePoints c r ["x", "y"] [[1, 2], [3, 4], [5, 6]] true).toOption
    ∧ (viewSet (canon c r ["x", "y"] true [[1, 2], [3, 4]]) ["x", "y"] 1 0 9).toOption
        = some (canon c r ["x", "y"] true [[1, 2], [9, 4]]) := by
  refine ⟨by decide +kernel, ?_, by decide +kernel, by decide +kernel, by decide +kernel⟩
  unfold Fresh; decide +kernel

/-- empty and single-point inputs, tuple, dictionary with zero points, field selection in a
different order, defaults read back by name -/
example :
    let c : Cfg Int := { nan := -1, it0 := 0 }
    let r : Registry Int := ⟨[("q", 7)]⟩
    (numpyArrayToLivePoints c r (.d1 []) ["x", "y"] true).toOption = some (canon c r ["x", "y"] true [])
    ∧ (numpyArrayToLivePoints c r (.d1 [4, 5]) ["x", "y"] true).toOption = some (canon c r ["x", "y"] true [[4, 5]])
    ∧ (parametersToLivePoint c r [4, 5] ["x", "y"] true).toOption = some (canon c r ["x", "y"] true [[4, 5]])
    ∧ (dictToLivePoints c r [("x", .arr []), ("y", .arr [])] true).toOption = some (canon c r ["x", "y"] true [])
    ∧ (dictToLivePoints c r [("x", .arr [4]), ("y", .arr [5])] true).toOption = some (canon c r ["x", "y"] true [[4, 5]])
    ∧ (dictToLivePoints c r [("x", .scalar 4), ("y", .scalar 5)] false).toOption = some ⟨["x", "y"], 2, [[4, 5]]⟩
    ∧ (livePointsToArray (canon c r ["x", "y"] true [[1, 2], [3, 4]]) (some ["q", "y", "x"])).toOption
        = some (3, [[7, 2, 1], [7, 4, 3]])
    ∧ (livePointsToDict (canon c r ["x", "y"] true [[1, 2], [3, 4]]) (some ["logP", "logL", "it", "q"])).toOption
        = some [("logP", [-1, -1]), ("logL", [-1, -1]), ("it", [0, 0]), ("q", [7, 7])] := by
  decide +kernel

example : (⟨["x", "y", "logP", "logL", "it"], 4, [[1, 2, 3, 4, 0]]⟩ : LP Int).WF :=
  ⟨by decide, by decide, by decide⟩

/-! ## every theorem with hypotheses, APPLIED to a concrete state

`exC`/`exR`: NaN token `-1`, one registered extra `q` with default 7; names `x, y`; a well-formed
five-field array `exLP` with two points. -/

def exC : Cfg Int := { nan := -1, it0 := 0 }
def exR : Registry Int := ⟨[("q", 7)]⟩
def exOps : List (RegOp Int) := [.add ["a", "b", "a"] (some [10, 20, 30]), .add ["c"] none]
def exLP : LP Int := ⟨["x", "y", "logP", "logL", "it"], 4, [[1, 2, 3, 4, 0], [5, 6, 7, 8, 0]]⟩
def exFresh : Fresh exR ["x", "y"] true := by unfold Fresh; decide +kernel
def exFreshF : Fresh exR ["x", "y"] false := by unfold Fresh; decide +kernel
def exWF : exLP.WF := ⟨by decide, by decide, by decide⟩
def exNoReset : ∀ op ∈ exOps, op.isReset = false := by
  intro op h
  simp only [exOps, List.mem_cons, List.not_mem_nil, or_false] at h
  rcases h with rfl | rfl <;> rfl

example := array_to_live_points exC exR ["x", "y"] true [[1, 2], [3, 4], [5, 6]] exFresh (by decide) (by decide)
example := array_to_live_points exC exR ["x", "y"] false [] exFreshF (by decide) (by decide)
example := array_1d_is_one_point exC exR ["x", "y"] true [1, 2] exFresh (by decide) rfl
example := array_empty exC exR ["x", "y"] true exFresh
example := array_roundtrip exC exR ["x", "y"] true [[1, 2]] exFresh (by decide) (by decide)
example := to_array_selects_fields exLP exWF ["logL", "x"] (by decide) (by decide) (by decide)
example := names_must_be_fresh exC exR ["x", "q"] true (.d2 2 [[1, 2]]) (by unfold Fresh; decide +kernel)
example := tuple_roundtrip exC exR ["x", "y"] true [4, 5] exFresh (by decide) rfl
example := tuple_empty exC exR ["x", "y"] false exFreshF
example := dict_scalars_to_live_point exC exR ["x", "y"] true [4, 5] exFresh (by decide) rfl
example := dict_arrays_to_live_points exC exR ["x", "y"] true [[1, 3, 5], [2, 4, 6]] 3 exFresh (by decide) rfl (by decide)
example := dict_arrays_to_live_points exC exR ["x", "y"] true [[1], [2]] 1 exFresh (by decide) rfl (by decide)
example := dict_roundtrip exC exR ["x", "y"] true [[], []] 0 exFresh (by decide) rfl (by decide)
example := dict_roundtrip exC exR ["x", "y"] true [[1], [2]] 1 exFresh (by decide) rfl (by decide)
example := live_points_dict_roundtrip exC exR ["x", "y"] true [[1, 2]] exFresh (by decide) (by decide)
example := live_points_dict_roundtrip_fails_without exC exR ["x", "y"] [[1, 2], [3, 4]] exFresh (by decide) (by decide)
example := live_points_dict_all_fields_roundtrip exC exR exLP exWF (by decide)
example := dict_length_one_sequences exC exR ["x", "y"] true [4, 5] exFresh (by decide) rfl
example := dict_scalar_then_sequence_rejected exC exR "x" "y" 1 [2, 3] [] true
example := dataframe_to_live_points exC exR ["x", "y"] true [[1, 2]] exFresh (by decide)
example := dataframe_eq_dict_eq_array exC exR ["x", "y"] true [[1, 2]] exFresh (by decide) (by decide)
example := defaults exC exR ["x", "y"] [[1, 2], [3, 4]] exFresh (by decide)
example := empty_structured exC exR 3 ["x", "y"] true exFresh (by decide)
example := conversions_wf exC exR ["x", "y"] true [[1, 2], [3, 4]] exFresh (by decide)
example := registry_history_after_reset exC exR [.add ["z"] none] exOps exNoReset
example := registry_history_no_reset exC exOps exNoReset
example := registry_history_cases (exOps ++ [.reset] ++ exOps)
example := registry_no_duplicates exC (exOps ++ [.reset] ++ exOps)
example := registry_new_arrays exC exOps ["x", "y"] [[1, 2]] (by decide) (by unfold Fresh; decide +kernel) (by decide)
example := registry_add_existing_skipped exC exR "q" 99 (by decide)
example := view_is_window_get exLP exWF 2 (by decide)
example := view_set_is_field_set exLP exWF 2 (by decide) 1 0 9 (by decide) (by decide) "x" rfl
example := view_set_frame exLP exWF "y" 1 9 (by decide) (by decide)
example := view_put_get exLP exWF 4 (by decide) 0 3 9 (by decide) (by decide)
example := view_of_parameters exC exR ["x", "y"] true [[1, 2], [3, 4]] exFresh (by decide)

/-! ## The registration function of the source, regenerated on every run, IS the model's registry update -/

theorem addFold_source_eq_model (r : Registry V) (l : List (String × V)) :
    l.foldl (fun (st : List String × List V) (pdv : String × V) =>
        if ¬ (st.1.contains pdv.1) then ((st.1 ++ [pdv.1]), (st.2 ++ [pdv.2])) else st) (r.names, r.defaults) =
      ((l.foldl addOne r).names, (l.foldl addOne r).defaults) := by
  induction l generalizing r with
  | nil => rfl
  | cons pd l ih =>
    simp only [List.foldl_cons]
    by_cases h : r.names.contains pd.1
    · have e : addOne r pd = r := by unfold addOne; rw [if_pos h]
      simp only [h, not_true_eq_false, if_false, e]
      exact ih r
    · have e : addOne r pd = ⟨r.extras ++ [pd]⟩ := by unfold addOne; rw [if_neg h]
      simp only [h, not_false_eq_true, if_true, e]
      have := ih ⟨r.extras ++ [pd]⟩
      simpa [Registry.names, Registry.defaults] using this

/-- `Gen.LivePointTx.add_extra_parameters_to_live_points` is generated by `harness/c18_tx.py` from the current text of
`nessai.livepoint.add_extra_parameters_to_live_points` (the default of `default_values`, the loop over the zip, the guard and
the three appends, statement by statement).  Started from any registry state it produces exactly the names and defaults of
the model's `add` — so every registry theorem above (`registry_no_duplicates`, `registry_add_existing_skipped`,
`registry_new_arrays`, the history theorems) is about the source as it is now. -/
theorem add_extra_source_eq_model (cfg : Cfg V) (r : Registry V) (ps : List String) (dvs : Option (List V)) :
    Gen.LivePointTx.add_extra_parameters_to_live_points cfg.nan r.names r.defaults ps dvs =
      ((add cfg r ps dvs).names, (add cfg r ps dvs).defaults) := by
  unfold Gen.LivePointTx.add_extra_parameters_to_live_points add
  exact addFold_source_eq_model r _

/-- applied: an already registered name in front of a new one keeps the new one's OWN default (position, not count) -/
example : Gen.LivePointTx.add_extra_parameters_to_live_points (0 : Nat) ["a"] [7] ["a", "b"] (some [1, 2]) =
    (["a", "b"], [7, 2]) := by decide

end NessaiVerif.C18
