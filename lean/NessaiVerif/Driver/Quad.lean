import NessaiVerif.Model.Quadrature
import NessaiVerif.Model.Information
import NessaiVerif.Driver.Parse
/-
Line protocol of the quadrature model (area token `quad`), run at `K := Rat`.

Numbers in:  `p/q`, `p` or `a@e` (= a·2^e, e an integer).
Numbers out: `m@e` = the exact rational result rounded toward zero to `outBits`+1 significant
             bits (the exact values have 10^4–10^6 bits; the harness only takes logarithms of them).
Shrinkage:   trailing tokens `t` (tOfN, exact) or `logt <keys:[n,..]> <vals:[r,..]>` (table n ↦ t).

  quad sampler <n> <k> <Ls> <shrink…>    k dead points then the rest as live points through NestedSampler.finalise
        → ok ns=[..] Zrect=<r> Z=<r> X=[..] W=[..] LX=[..]     (LX = get_logx_live_points(n) after the dead points)
  quad incr <base> <ns:[n|none,..]> <Ls> <shrink…>   increment(L_i, nlive=ns_i) then finalise
        → ok ns=[..] Zrect=<r> Z=<r> X=[..] W=[..]
  quad cw int:<n>|arr:<[n,..]> <Ls> <shrink…>        compute_weights
        → ok Z=<r> W=[..] | err=value | err=index
  quad sched incr <k> <n> | quad sched onepass <len> <n>
  quad round <r> <bits>                               the output rounding itself
  quad infoz <base> <ns:[n|none,..]> <Ls> <shrink…>   the evidence after each increment (information state)
        → ok Zs=[..]
  quad info <base> <ns> <Ls> <lgLs> <lgZs> <shrink…>  the information recursion with the logarithm given as a table:
        lg L_i = lgLs_i, lg Z_i = lgZs_i (Z_i = exact evidence after increment i, computed here)
        → ok info=[..] err2=<r>|nan       (err2 = info[-1] / base, `nan` when info[-1] < 0)
-/
namespace NessaiVerif.Driver.Quad
open NessaiVerif NessaiVerif.Parse NessaiVerif.Quad

def outBits : Nat := 256

/-- `a@e` ↦ a·2^e -/
def parseNum? (s : String) : Option Rat :=
  match s.splitOn "@" with
  | [a, e] => do
      let a ← a.toInt?
      let e ← e.toInt?
      if e ≥ 0 then some ((a <<< e.toNat : Int) : Rat) else some (mkRat a (1 <<< (-e).toNat))
  | _ => parseRat? s

/-- round toward zero to `bits`+1 significant bits: `(m, e)` with `|m|·2^e ≤ |r| < (|m|+1)·2^e` -/
def roundDy (bits : Nat) (r : Rat) : Int × Int :=
  if r.num == 0 then (0, 0) else
  let a := r.num.natAbs
  let d := r.den
  let s : Int := (bits : Int) + (d.log2 : Int) - (a.log2 : Int)
  let m : Nat := if s ≥ 0 then (a <<< s.toNat) / d else a / (d <<< (-s).toNat)
  (if r.num < 0 then -(m : Int) else (m : Int), -s)

def showDy (r : Rat) : String :=
  let (m, e) := roundDy outBits r
  s!"{m}@{e}"

def showErr : Err → String
  | .valueErr => "err=value"
  | .indexErr => "err=index"

def lookup (keys : List Nat) (vals : List Rat) (n : Nat) : Rat :=
  match keys, vals with
  | k :: ks, v :: vs => if k == n then v else lookup ks vs n
  | _, _ => 0

/-- shrink spec → (shrink function, predicate "this live count is covered") -/
def parseShrink? (toks : List String) : Option ((Nat → Rat) × (Nat → Bool)) :=
  match toks with
  | ["t"] => some (tOfN, fun _ => true)
  | ["logt", ks, vs] => do
      let ks ← parseList? parseNat? ks
      let vs ← parseList? parseNum? vs
      if ks.length ≠ vs.length then none else some (lookup ks vs, fun n => ks.contains n)
  | _ => none

def showSt (s : St Rat) (zrect : Rat) : String :=
  s!"ns={showList toString s.ns} Zrect={showDy zrect} Z={showDy s.finalise} " ++
  s!"X={showList showDy s.Xs} W={showList showDy s.postW}"

def parseNLive? (s : String) : Option NLive :=
  match s.splitOn ":" with
  | ["int", n] => (parseNat? n).map NLive.int
  | ["arr", ns] => (parseList? parseNat? ns).map NLive.arr
  | _ => none

/-- the evidence after each increment of the information state -/
def infoZs (lg : Rat → Rat) (steps : List (Rat × Rat)) : List Rat :=
  let rec go (s : Info.ISt Rat) : List (Rat × Rat) → List Rat
    | [] => []
    | (L, t) :: rest => let s' := s.step lg L t; s'.Z :: go s' rest
  go Info.ISt.init steps

def handle (toks : List String) : String :=
  match toks with
  | "sampler" :: n :: k :: ls :: sh =>
    match parseNat? n, parseNat? k, parseList? parseNum? ls, parseShrink? sh with
    | some n, some k, some ls, some (shrink, covered) =>
      if !((n :: countdown n).all covered) then "bad-op" else
      let dead := ls.take k
      let live := ls.drop k
      let mid := consume shrink (St.init n) dead
      let s := sampler shrink n dead live
      "ok " ++ showSt s s.Z ++ s!" LX={showList showDy (mid.logxLive shrink n)}"
    | _, _, _, _ => "bad-op"
  | "incr" :: base :: ns :: ls :: sh =>
    match parseNat? base, parseList? (parseOpt? parseNat?) ns, parseList? parseNum? ls, parseShrink? sh with
    | some base, some ns, some ls, some (shrink, covered) =>
      if ns.length ≠ ls.length then "bad-op"
      else if !((ns.map (·.getD base)).all covered) then "bad-op" else
      let s := (St.init base).incrMany shrink (ls.zip ns)
      "ok " ++ showSt s s.Z
    | _, _, _, _ => "bad-op"
  | "cw" :: nl :: ls :: sh =>
    match parseNLive? nl, parseList? parseNum? ls, parseShrink? sh with
    | some nl, some ls, some (shrink, covered) =>
      let need := match nl with
        | .int n => if n = 0 then [] else n :: countdown n
        | .arr ns => ns
      if !(need.all covered) then "bad-op" else
      match computeWeights shrink ls nl with
      | .ok (z, w) => s!"ok Z={showDy z} W={showList showDy w}"
      | .error e => showErr e
    | _, _, _ => "bad-op"
  | ["sched", "incr", k, n] =>
    match parseNat? k, parseNat? n with
    | some k, some n => showList toString (scheduleIncr k n)
    | _, _ => "bad-op"
  | ["sched", "onepass", len, n] =>
    match parseNat? len, parseNat? n with
    | some len, some n =>
      match scheduleOnePass len n with
      | .ok s => "ok " ++ showList toString s
      | .error e => showErr e
    | _, _ => "bad-op"
  | "infoz" :: base :: ns :: ls :: sh =>
    match parseNat? base, parseList? (parseOpt? parseNat?) ns, parseList? parseNum? ls, parseShrink? sh with
    | some base, some ns, some ls, some (shrink, covered) =>
      if ns.length ≠ ls.length then "bad-op"
      else if !((ns.map (·.getD base)).all covered) then "bad-op" else
      "ok Zs=" ++ showList showDy (infoZs (fun x => x) (ls.zip (ns.map fun n => shrink (n.getD base))))
    | _, _, _, _ => "bad-op"
  | "info" :: base :: ns :: ls :: lgl :: lgz :: sh =>
    match parseNat? base, parseList? (parseOpt? parseNat?) ns, parseList? parseNum? ls,
          parseList? parseNum? lgl, parseList? parseNum? lgz, parseShrink? sh with
    | some base, some ns, some ls, some lgl, some lgz, some (shrink, covered) =>
      if ns.length ≠ ls.length || lgl.length ≠ ls.length || lgz.length ≠ ls.length then "bad-op"
      else if !((ns.map (·.getD base)).all covered) then "bad-op" else
      let steps := ls.zip (ns.map fun n => shrink (n.getD base))
      let zs := infoZs (fun x => x) steps
      let table := ls.zip lgl ++ zs.zip lgz
      let lg : Rat → Rat := fun x => ((table.find? fun p => p.1 == x).map (·.2)).getD 0
      let s := (Info.ISt.init : Info.ISt Rat).run lg steps
      let e := match Info.errSq s.last base with
        | none => "nan"
        | some v => showDy v
      s!"ok info={showList showDy s.info} err2={e}"
    | _, _, _, _, _, _ => "bad-op"
  | ["round", r, bits] =>
    match parseNum? r, parseNat? bits with
    | some r, some bits => let (m, e) := roundDy bits r; s!"{m}@{e}"
    | _, _ => "bad-op"
  | _ => "bad-op"

end NessaiVerif.Driver.Quad
