import NessaiVerif.Model.MetaProposal
import NessaiVerif.Proofs.Meta
import NessaiVerif.Proofs.PyDict
import NessaiVerif.Gen.MetaTx
import Mathlib.Tactic.Ring
import Mathlib.Tactic.Push
/-
C03 — every INS sample carries the exact meta-proposal density and weight.
Linear-domain model (Model/MetaProposal.lean); `D id k` is the density of proposal `k-1`
(k = 0: the initial unit-cube prior draw, density 1) at the sample with identifier `id`.
Theorems hold for every field of characteristic zero (ℚ — the executable instance — and ℝ).

PARTIAL with respect to the property's wording: the clause "the stored per-proposal log-densities equal the saved
proposals re-evaluated at that sample" enters as the consistency hypothesis `IterOk` on the inputs of an iteration
(the densities are inputs of the model; that the real code stores exactly the re-evaluated densities is checked by
the trace replay and the oracle, not proved); "every sample lies in the unit hypercube" and "the stored log-likelihood
equals the model's value" are oracle-only; finalisation and checkpoint/resume do not change the bookkeeping in the
model and are covered by replaying real runs (resume mid-run and after finalisation) only.  `W = U / Q` and
`Q = mix w row` hold by definition of a stored sample; the content of the main theorem is that EVERY stored sample
— old and new, in both sets — is in that form under the CURRENT weights and rows after every iteration.
-/
namespace NessaiVerif.C03
open NessaiVerif.Meta

variable {K : Type} [Field K] [CharZero K] [DecidableEq K]

/-- States reachable by the sampler's bookkeeping: the initial population, then any number of
iterations whose inputs are consistent with the density table (new samples carry every proposal's
density, the new column is the new proposal's density at each stored sample, exactly `nAdd` samples
are drawn for each set). -/
inductive Reachable (D : Nat → Nat → K) : St K → Prop
  | pop (useIid : Bool) (tr ii : List (Nat × K)) (hne : tr ≠ [])
      (hsz : if useIid then tr.length = ii.length else ii = []) :
      Reachable D (populate useIid tr ii)
  | iter (s : St K) (hs : Reachable D s) (nAdd : Nat)
      (newT : List (Nat × K × List K)) (colT : List (Nat × K))
      (newI : List (Nat × K × List K)) (colI : List (Nat × K))
      (hin : IterOk D s nAdd newT colT newI colI) (s' : St K)
      (hok : iteration s (s.counts.length - 1) nAdd newT colT newI colI = .ok s') :
      Reachable D s'

/-- the initial population satisfies the invariant (the initial proposal has density 1 on the cube) -/
theorem populate_inv (D : Nat → Nat → K) (hD0 : ∀ id, D id 0 = 1) (useIid : Bool) (tr ii : List (Nat × K))
    (hne : tr ≠ []) (hsz : if useIid then tr.length = ii.length else ii = []) :
    MetaInv D (populate useIid tr ii) := by
  have hlen : tr.length ≠ 0 := fun h => hne (List.length_eq_zero_iff.mp h)
  have hK : ((tr.length : Nat) : K) ≠ 0 := Nat.cast_ne_zero.mpr hlen
  have hsample : ∀ p : Nat × K, SampleOk D [1] (initSample p.1 p.2) := by
    intro p
    refine ⟨?_, ?_, rfl⟩
    · simp [initSample, rowOf, hD0]
    · simp [initSample, mix]
  cases useIid with
  | false =>
    simp at hsz
    subst hsz
    refine ⟨rfl, by simp [populate, refSize], by simpa [populate] using hlen, ?_, ?_, ?_, by simp [populate], by simp [populate]⟩
    · simp [populate, div_self hK]
    · intro m hm
      simp only [populate, List.mem_map] at hm
      obtain ⟨p, _, rfl⟩ := hm
      exact hsample p
    · intro m hm; simp [populate] at hm
  | true =>
    simp at hsz
    refine ⟨rfl, by simp [populate, refSize, hsz], by simpa [populate] using hlen, ?_, ?_, ?_, by simp [populate, hsz], by simp [populate]⟩
    · simp [populate, div_self hK]
    · intro m hm
      simp only [populate, List.mem_map] at hm
      obtain ⟨p, _, rfl⟩ := hm
      exact hsample p
    · intro m hm
      simp only [populate, List.mem_map] at hm
      obtain ⟨p, _, rfl⟩ := hm
      exact hsample p

/-- **Main theorem.**  At every iteration boundary (any number of iterations, any batch sizes, with or
without the independent set): every sample of the training set and of the independent set stores the density
of every proposal at that sample, its meta-proposal density is the mixture under the current weights, its
weight is `U / Q`; the weights are `count_k / total`. -/
theorem meta_invariant (D : Nat → Nat → K) (hD0 : ∀ id, D id 0 = 1) (s : St K) (h : Reachable D s) :
    MetaInv D s := by
  induction h with
  | pop useIid tr ii hne hsz => exact populate_inv D hD0 useIid tr ii hne hsz
  | iter s _ nAdd newT colT newI colI hin s' hok ih =>
    obtain ⟨s'', hok', hinv, _⟩ := iteration_ok D s ih nAdd newT colT newI colI hin
    rw [hok] at hok'
    cases hok'
    exact hinv

/-- every stored sample, spelled out -/
theorem every_sample_exact (D : Nat → Nat → K) (hD0 : ∀ id, D id 0 = 1) (s : St K) (h : Reachable D s) :
    ∀ m ∈ s.train ++ s.iid,
      m.row = (List.range s.counts.length).map (D m.id) ∧ m.Q = mix s.weights m.row ∧ m.W = m.U / m.Q := by
  have hinv := meta_invariant D hD0 s h
  intro m hm
  have hok : SampleOk D s.weights m := by
    rcases List.mem_append.mp hm with hm | hm
    · exact hinv.train m hm
    · exact hinv.iid m hm
  exact ⟨by rw [hok.row, hinv.wlen]; rfl, hok.Q, hok.W⟩

/-- the mixture weights are the fraction of samples attributed to each proposal and sum to one -/
theorem weights_are_fractions (D : Nat → Nat → K) (hD0 : ∀ id, D id 0 = 1) (s : St K) (h : Reachable D s) :
    s.weights = s.counts.map (fun (c : Nat) => ((c : K) / ((refSize s : Nat) : K) : K)) ∧
    sumK s.weights = 1 ∧ s.counts.sum = refSize s := by
  have hinv := meta_invariant D hD0 s h
  refine ⟨by rw [hinv.weights, hinv.total], ?_, hinv.total⟩
  rw [hinv.weights]
  exact weights_sum_one s.counts hinv.nonempty

/-- iteration labels of a store that holds `counts[0]` samples of the initial proposal (label −1), then
`counts[1]` samples of proposal 0, … in the order they were added -/
def itsOf : List Nat → Int → List Int
  | [], _ => []
  | c :: cs, k => List.replicate c k ++ itsOf cs (k + 1)

omit [Field K] [CharZero K] [DecidableEq K] in
theorem itsOf_append (cs : List Nat) (n : Nat) (k : Int) :
    itsOf (cs ++ [n]) k = itsOf cs k ++ List.replicate n (k + cs.length) := by
  induction cs generalizing k with
  | nil => simp [itsOf]
  | cons c cs ih =>
    simp only [List.cons_append, itsOf, ih, List.append_assoc, List.length_cons]
    congr 2
    push_cast
    ring_nf

/-- **The counts are the numbers of samples actually drawn from each proposal**: the training set (and the
independent set, when used) consists of exactly `counts[k]` samples labelled with proposal `k−1`, for every `k`.
Together with `weights_are_fractions`: each weight is the fraction of samples drawn from its proposal. -/
theorem samples_grouped_by_proposal (D : Nat → Nat → K) (hD0 : ∀ id, D id 0 = 1) (s : St K) (h : Reachable D s) :
    s.train.map (·.it) = itsOf s.counts (-1) ∧
    (s.useIid = true → s.iid.map (·.it) = itsOf s.counts (-1)) := by
  induction h with
  | pop useIid tr ii hne hsz =>
    constructor
    · simp [populate, itsOf, initSample, List.map_map, Function.comp_def, List.eq_replicate_iff]
    · intro hu
      simp only [populate] at hu
      subst hu
      simp only [if_true] at hsz
      simp [populate, itsOf, initSample, List.map_map, Function.comp_def, List.eq_replicate_iff, hsz]
  | iter s hs nAdd newT colT newI colI hin s' hok ih =>
    have hinv := meta_invariant D hD0 s hs
    obtain ⟨s'', hok', _, hcounts, _, _, huse, hitT, hitI⟩ := iteration_ok D s hinv nAdd newT colT newI colI hin
    rw [hok] at hok'
    cases hok'
    have hlen : s.counts.length ≠ 0 := by
      intro h0
      have : s.counts = [] := List.length_eq_zero_iff.mp h0
      exact hinv.nonempty (by simp [this])
    have hcast : ((s.counts.length - 1 : Nat) : Int) = -1 + (s.counts.length : Int) := by omega
    rw [hcounts, itsOf_append, ← hcast]
    constructor
    · rw [hitT, ih.1]
    · intro hu
      rw [huse] at hu
      rw [hitI hu, ih.2 hu]

/-- an iteration from a reachable state never raises when its inputs are consistent, and the training and
independent sets grow by exactly the number of samples drawn -/
theorem iteration_total (D : Nat → Nat → K) (hD0 : ∀ id, D id 0 = 1) (s : St K) (h : Reachable D s) (nAdd : Nat)
    (newT : List (Nat × K × List K)) (colT : List (Nat × K))
    (newI : List (Nat × K × List K)) (colI : List (Nat × K))
    (hin : IterOk D s nAdd newT colT newI colI) :
    ∃ s', iteration s (s.counts.length - 1) nAdd newT colT newI colI = .ok s' ∧
      s'.counts = s.counts ++ [nAdd] ∧ s'.train.length = s.train.length + nAdd ∧
      (s.useIid = true → s'.iid.length = s.iid.length + nAdd) := by
  obtain ⟨s', hok, _, h1, h2, h3, _⟩ := iteration_ok D s (meta_invariant D hD0 s h) nAdd newT colT newI colI hin
  exact ⟨s', hok, h1, h2, h3⟩

omit [CharZero K] [DecidableEq K] in
/-- with non-negative densities the meta-proposal density of a stored sample is at least `w₀·q₀ = w₀ > 0`
(so `log Q` is finite and the weight well defined) -/
theorem Q_pos [LinearOrder K] [IsStrictOrderedRing K] (w0 : K) (ws : List K) (qs : List K)
    (hw0 : 0 < w0) (hws : ∀ x ∈ ws, 0 ≤ x) (hqs : ∀ x ∈ qs, 0 ≤ x) : 0 < mix (w0 :: ws) (1 :: qs) := by
  simp only [mix, mul_one]
  have := mix_ge_head ws qs hws hqs
  exact add_pos_of_pos_of_nonneg hw0 this

/-- the first proposal keeps the initial population's count: a reachable state has `counts = c₀ :: _` with `c₀ > 0` -/
theorem counts_head_pos (D : Nat → Nat → K) (hD0 : ∀ id, D id 0 = 1) (s : St K)
    (h : Reachable D s) : ∃ c0 rest, s.counts = c0 :: rest ∧ 0 < c0 := by
  induction h with
  | pop useIid tr ii hne hsz =>
    exact ⟨tr.length, [], rfl, List.length_pos_iff.mpr hne⟩
  | iter s hs nAdd newT colT newI colI hin s' hok ih =>
    obtain ⟨c0, rest, hc, hpos⟩ := ih
    obtain ⟨s'', hok', _, hcounts, _⟩ := iteration_ok D s (meta_invariant D hD0 s hs) nAdd newT colT newI colI hin
    rw [hok] at hok'
    cases hok'
    exact ⟨c0, rest ++ [nAdd], by rw [hcounts, hc]; rfl, hpos⟩

/-- **The meta-proposal density of every stored sample is strictly positive** (so `log Q` is finite and
`W = U / Q` is a genuine quotient, not the totalised `x / 0 = 0`), for non-negative proposal densities:
`Q ≥ w₀ · q₀ = c₀ / total > 0` because the initial proposal has density 1 and a positive count. -/
theorem reachable_Q_pos [LinearOrder K] [IsStrictOrderedRing K] (D : Nat → Nat → K)
    (hD0 : ∀ id, D id 0 = 1) (hD : ∀ id k, 0 ≤ D id k) (s : St K) (h : Reachable D s) :
    ∀ m ∈ s.train ++ s.iid, 0 < m.Q := by
  have hinv := meta_invariant D hD0 s h
  obtain ⟨c0, rest, hc, hpos⟩ := counts_head_pos D hD0 s h
  intro m hm
  obtain ⟨hrow, hQ, _⟩ := every_sample_exact D hD0 s h m hm
  have htot : (0 : K) < ((s.counts.sum : Nat) : K) := by
    have : 0 < s.counts.sum := Nat.pos_of_ne_zero hinv.nonempty
    exact_mod_cast this
  rw [hQ, hinv.weights, hrow, hc]
  simp only [List.map_cons, List.length_cons, List.range_succ_eq_map, List.map_map]
  rw [hD0]
  have hw0 : (0 : K) < (c0 : K) / ((List.sum (c0 :: rest) : Nat) : K) := by
    rw [← hc]
    exact div_pos (by exact_mod_cast hpos) htot
  apply Q_pos _ _ _ hw0
  · intro x hx
    obtain ⟨c, _, rfl⟩ := List.mem_map.mp hx
    rw [← hc]
    exact div_nonneg (Nat.cast_nonneg c) htot.le
  · intro x hx
    obtain ⟨k, _, rfl⟩ := List.mem_map.mp hx
    exact hD _ _

/-- non-vacuity with the independent set: population + two consistent iterations run without error and
end with counts [2, 1, 2] and weights 2/5, 1/5, 2/5 for both sets -/
example :
    ((iteration (populate true [(1, (1 : Rat)), (2, 1)] [(11, 1), (12, 1)]) 0 1
        [(3, 1, [1, 2])] [(1, 3), (2, 1)] [(13, 1, [1, 1/2])] [(11, 1/2), (12, 2)]).toOption.bind
      (fun s => (iteration s 1 2
        [(4, 1, [1, 1, 3]), (5, 1, [1, 2, 1])] [(1, 1), (2, 1), (3, 2)]
        [(14, 1, [1, 1, 1]), (15, 1, [1, 3, 1/4])] [(11, 1), (12, 1), (13, 5)]).toOption)).map
      (fun s => (s.counts, s.weights, s.train.length, s.iid.length))
    = some ([2, 1, 2], [2/5, 1/5, 2/5], 5, 5) := by decide +kernel

/-- why old samples must be re-weighted: appending the new density column WITHOUT recomputing `Q`
leaves a stale meta-proposal density (concrete rational counter-example) -/
theorem meta_fails_if_not_recomputed :
    let w' : List Rat := [1/2, 1/2]
    let m : MS Rat := initSample 7 1                        -- stored with Q = 1 under weights [1]
    let stale : MS Rat := { m with row := m.row ++ [3] }     -- new column q₀(x) = 3, Q not recomputed
    stale.Q ≠ mix w' stale.row ∧ (upd w' (fun _ => 3) m).Q = mix w' (upd w' (fun _ => 3) m).row := by
  decide +kernel

/-- non-vacuity: a concrete two-sample population followed by one consistent iteration is reachable,
runs without error, and ends with weights 1/2, 1/2 -/
example : (iteration (populate false [(1, (1 : Rat)), (2, 1)] []) 0 2
      [(3, 1, [1, 3/2]), (4, 1, [1, 1/2])] [(1, 2), (2, 1/2)] [] []).toOption.map (·.weights)
    = some [1/2, 1/2] := by decide +kernel

/-! ## The weight bookkeeping, regenerated from the source on every run, IS the model

`Gen/MetaTx.lean` is produced by `harness/c03_tx.py` from the current text of
`ImportanceNestedSampler.add_new_proposal_weight`, `ImportanceFlowProposal.update_proposal_weights` and
`compute_meta_proposal_from_log_q` over Python dictionaries in insertion order (`Model/PyDict.lean`).  The dictionaries
`sample_counts` and `_weights` with keys `-1, 0, 1, …` are `PyDict.ofList (-1)` of the model's lists. -/

/-- the call both branches end in: the weights dictionary computed from the updated counts, handed to
`update_proposal_weights` -/
theorem update_weights_call (counts' : List Nat) (ws : List K) (n : Nat) (hlen : ws.length ≤ counts'.length) :
    Gen.MetaTx.update_proposal_weights (PyDict.ofList (-1) ws)
        ((PyDict.ofList (-1) counts').map (fun kv => (kv.1, (((kv.2 : Nat) : K) / ((n : Nat) : K)))))
    = if sumK (counts'.map (fun (c : Nat) => ((c : K) / (n : K)))) = 1
      then .ok (PyDict.ofList (-1) (counts'.map (fun (c : Nat) => ((c : K) / (n : K)))))
      else .error .runtimeErr := by
  have hl : ws.length ≤ (counts'.map (fun (c : Nat) => ((c : K) / (n : K)))).length := by simpa using hlen
  rw [PyDict.map_ofList (fun (c : Nat) => ((c : K) / (n : K)))]
  unfold Gen.MetaTx.update_proposal_weights
  rw [PyDict.update_ofList _ _ _ hl]
  simp only [PyDict.values_ofList]
  by_cases hs : sumK (counts'.map (fun (c : Nat) => ((c : K) / (n : K)))) = 1
  · simp [hs]
  · simp [hs]

/-- `add_new_proposal_weight(j, nNew)` (with the `update_proposal_weights` call it ends in) is the model's
`addProposalWeight`, errors included, whenever proposal `j` is the next one or an already registered one
(`j + 1 ≤ counts.length`; a gap is outside this theorem: the correspondence covers it) and the proposal's `_weights`
holds at most the keys `-1 … j` (it does: `train` adds the key of the new level with a NaN placeholder). -/
theorem add_new_proposal_weight_source_eq_model (s : St K) (ws : List K) (j nNew : Nat)
    (hj : j + 1 ≤ s.counts.length) (hw : ws.length ≤ j + 2) :
    Gen.MetaTx.add_new_proposal_weight (PyDict.ofList (-1) s.counts) (PyDict.ofList (-1) ws) (refSize s) (j : Int) nNew
      = (addProposalWeight s j nNew).map (fun s' => (PyDict.ofList (-1) s'.counts, PyDict.ofList (-1) s'.weights)) := by
  have hk : (j : Int) = -1 + ((j + 1 : Nat) : Int) := by push_cast; ring
  have hhas : PyDict.has (PyDict.ofList (-1) s.counts) (j : Int) = decide (j + 1 < s.counts.length) := by
    rw [PyDict.has_ofList, decide_eq_decide]; omega
  have hget : PyDict.getD (PyDict.ofList (-1) s.counts) (j : Int) 0 = s.counts.getD (j + 1) 0 := by
    rw [hk, PyDict.getD_ofList]
  unfold Gen.MetaTx.add_new_proposal_weight addProposalWeight
  rw [hhas, hget]
  by_cases hlt : j + 1 < s.counts.length
  · by_cases hz : s.counts.getD (j + 1) 0 = 0
    · have hset : PyDict.set (PyDict.ofList (-1) s.counts) (j : Int) nNew = PyDict.ofList (-1) (s.counts.set (j + 1) nNew) := by
        rw [hk, PyDict.set_ofList_lt _ _ _ _ hlt]
      have hc : ¬ ((decide (j + 1 < s.counts.length) && (s.counts.getD (j + 1) 0 != 0)) = true) := by rw [hz]; simp
      have hm1 : ¬ (j + 1 < s.counts.length ∧ s.counts.getD (j + 1) 0 ≠ 0) := fun h => h.2 hz
      have hm2 : ¬ (j + 1 > s.counts.length) := by omega
      rw [if_neg hc, if_neg hm1, if_neg hm2]
      simp only [hset, if_pos hlt]
      rw [update_weights_call _ _ _ (by simp; omega)]
      by_cases hs : sumK ((s.counts.set (j + 1) nNew).map (fun (c : Nat) => ((c : K) / ((refSize s + nNew : Nat) : K)))) = 1
      · rw [if_pos hs, if_pos hs]; rfl
      · rw [if_neg hs, if_neg hs]; rfl
    · have hc : (decide (j + 1 < s.counts.length) && (s.counts.getD (j + 1) 0 != 0)) = true := by
        rw [decide_eq_true hlt, Bool.true_and]; simpa using hz
      have hm1 : j + 1 < s.counts.length ∧ s.counts.getD (j + 1) 0 ≠ 0 := ⟨hlt, hz⟩
      rw [if_pos hc, if_pos hm1]; rfl
  · have heq : s.counts.length = j + 1 := by omega
    have hk' : (j : Int) = -1 + (s.counts.length : Int) := by rw [heq]; push_cast; ring
    have hset : PyDict.set (PyDict.ofList (-1) s.counts) (j : Int) nNew = PyDict.ofList (-1) (s.counts ++ [nNew]) := by
      rw [hk', PyDict.set_ofList_eq]
    have hc : ¬ ((decide (j + 1 < s.counts.length) && (s.counts.getD (j + 1) 0 != 0)) = true) := by simp [hlt]
    have hm1 : ¬ (j + 1 < s.counts.length ∧ s.counts.getD (j + 1) 0 ≠ 0) := fun h => hlt h.1
    have hm2 : ¬ (j + 1 > s.counts.length) := by omega
    rw [if_neg hc, if_neg hm1, if_neg hm2]
    simp only [hset, if_neg hlt]
    rw [update_weights_call _ _ _ (by simp; omega)]
    by_cases hs : sumK ((s.counts ++ [nNew]).map (fun (c : Nat) => ((c : K) / ((refSize s + nNew : Nat) : K)))) = 1
    · rw [if_pos hs, if_pos hs]; rfl
    · rw [if_neg hs, if_neg hs]; rfl

/-- `compute_meta_proposal_from_log_q`: the meta-proposal density of every stored row is `mix` under the current weights —
what `updateSample` / `newSample` store in `Q` -/
theorem meta_from_log_q_source_eq_model (w : List K) (rows : List (List K)) :
    Gen.MetaTx.compute_meta_proposal_from_log_q (PyDict.ofList (-1) w) rows = rows.map (mix w) := by
  simp [Gen.MetaTx.compute_meta_proposal_from_log_q]

/-- what the three re-weighting statements do to ONE stored sample when the new column entry is `q` -/
def updq (w : List K) (q : K) (m : MS K) : MS K :=
  { m with row := m.row ++ [q], Q := mix w (m.row ++ [q]), W := m.U / mix w (m.row ++ [q]) }

theorem reweight_core (w : List K) (ss : List (MS K)) (qs : List K) (hl : qs.length = ss.length) :
    (List.zipWith (fun row c => row ++ [c]) (ss.map (·.row)) qs,
     (List.zipWith (fun row c => row ++ [c]) (ss.map (·.row)) qs).map (mix w),
     List.zipWith (· / ·) (ss.map (·.U)) ((List.zipWith (fun row c => row ++ [c]) (ss.map (·.row)) qs).map (mix w)))
    = ((List.zipWith (updq w) qs ss).map (·.row), (List.zipWith (updq w) qs ss).map (·.Q),
       (List.zipWith (updq w) qs ss).map (·.W)) := by
  induction ss generalizing qs with
  | nil => simp
  | cons m ms ih =>
    cases qs with
    | nil => simp at hl
    | cons q qs =>
      have := ih qs (by simpa using hl)
      simp only [Prod.mk.injEq] at this ⊢
      obtain ⟨h1, h2, h3⟩ := this
      refine ⟨?_, ?_, ?_⟩
      · simp only [List.map_cons, List.zipWith_cons_cons, h1, updq]
      · simp only [List.map_cons, List.zipWith_cons_cons, h2, updq]
      · simp only [List.map_cons, List.zipWith_cons_cons, h3, updq]

/-- the re-weighting sequence of `add_and_update_points` (`update_log_q`, then `logQ`, then `logW = logU − logQ`), run on the
columns of a non-empty store whose rows lack exactly the current proposal's column, leaves in EVERY stored sample the row with the
new density `q·j` appended, `Q = mix w row` under the current weights and `W = U / Q` -/
theorem reweight_store_source_eq_model (w : List K) (ss : List (MS K)) (cq cj : List K)
    (hq : cq.length = ss.length) (hj : cj.length = ss.length) (hne : ss ≠ [])
    (hrow : ∀ m ∈ ss, m.row.length + 1 = w.length) :
    Gen.MetaTx.reweight_store (PyDict.ofList (-1) w) w.length (ss.map (·.row)) (ss.map (·.U)) cq cj
      = .ok ((List.zipWith (updq w) (List.zipWith (· * ·) cq cj) ss).map (·.row),
             (List.zipWith (updq w) (List.zipWith (· * ·) cq cj) ss).map (·.Q),
             (List.zipWith (updq w) (List.zipWith (· * ·) cq cj) ss).map (·.W)) := by
  have hg : (Gen.MetaTx.shape1 (ss.map (·.row)) == w.length) = false := by
    cases ss with
    | nil => exact absurd rfl hne
    | cons m ms =>
      have := hrow m (by simp)
      simp [Gen.MetaTx.shape1]; omega
  have hl : (List.zipWith (· * ·) cq cj).length = ss.length := by simp [hq, hj]
  unfold Gen.MetaTx.reweight_store Gen.MetaTx.update_log_q
  rw [hg]
  simp only [Bool.false_eq_true, if_false, Gen.MetaTx.compute_meta_proposal_from_log_q, PyDict.values_ofList]
  exact congrArg Except.ok (reweight_core w ss _ hl)

/-- … which is the model's `updateStore` (the store after `upd`) when the new column is the density table's -/
theorem reweight_store_eq_updateStore (w : List K) (f : Nat → K) (ss : List (MS K)) :
    List.zipWith (updq w) (ss.map (fun m => f m.id)) ss = ss.map (upd w f) := by
  induction ss with
  | nil => rfl
  | cons m ms ih => simp [ih, updq, upd]

/-- composed: on a store whose new column is the density table's (`col` holds `f id` for every stored identifier, `cq · cj` lists the
same densities in store order) the source's re-weighting sequence returns the columns of what the model's `updateStore` returns —
the step `meta_invariant` is proved about -/
theorem reweight_store_source_eq_updateStore (w : List K) (f : Nat → K) (col : List (Nat × K)) (ss : List (MS K)) (cq cj : List K)
    (hq : cq.length = ss.length) (hj : cj.length = ss.length) (hne : ss ≠ [])
    (hcol : List.zipWith (· * ·) cq cj = ss.map (fun m => f m.id))
    (h : ∀ m ∈ ss, lookup col m.id = some (f m.id) ∧ m.row.length + 1 = w.length) :
    updateStore w col ss = .ok (ss.map (upd w f)) ∧
    Gen.MetaTx.reweight_store (PyDict.ofList (-1) w) w.length (ss.map (·.row)) (ss.map (·.U)) cq cj
      = .ok ((ss.map (upd w f)).map (·.row), (ss.map (upd w f)).map (·.Q), (ss.map (upd w f)).map (·.W)) := by
  refine ⟨updateStore_eq w col f ss h, ?_⟩
  rw [reweight_store_source_eq_model w ss cq cj hq hj hne (fun m hm => (h m hm).2), hcol, reweight_store_eq_updateStore]

/-- the error branch: a store whose rows already hold the current proposal's column is refused with `ValueError`
(the model's `updateSample` returns `valueErr` for such a row) -/
theorem reweight_store_source_already_updated (w : List K) (m : MS K) (ms : List (MS K)) (cq cj : List K)
    (hrow : m.row.length = w.length) :
    Gen.MetaTx.reweight_store (PyDict.ofList (-1) w) w.length ((m :: ms).map (·.row)) ((m :: ms).map (·.U)) cq cj
      = .error .valueErr ∧ updateSample w (0 : K) m = .error .valueErr := by
  constructor
  · simp [Gen.MetaTx.reweight_store, Gen.MetaTx.update_log_q, Gen.MetaTx.shape1, hrow]
  · simp [updateSample, hrow]

/-- non-vacuity: registering proposal 0 with 2 new samples on top of 2 initial ones gives weights 1/2, 1/2 -/
example : Gen.MetaTx.add_new_proposal_weight (PyDict.ofList (-1) [2]) (PyDict.ofList (-1) [(1 : Rat), 0]) 2 0 2
    = .ok ([(-1, 2), (0, 2)], [(-1, 1/2), (0, 1/2)]) := by decide +kernel

end NessaiVerif.C03
