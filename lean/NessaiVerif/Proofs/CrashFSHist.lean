import NessaiVerif.Proofs.CrashFS
/-
C11 — the two history inductions (standard sampler with a side condition `Q` on the
weights family; importance sampler with the level discipline), for any protocol
meeting the specs of `Proofs/CrashFS.lean`.
-/
namespace NessaiVerif.CrashFS

theorem CkptGood.congr {fs fs' : FS} {prev} (h : CkptGood fs prev)
    (hb : fs' cb = fs cb) (ho : fs' co = fs co) : CkptGood fs' prev := by
  unfold CkptGood at *
  rw [hb, ho]; exact h

theorem version_specOf (kind : Kind) (cfg : ResumeCfg) (fs : FS) (prev : Option (Nat × Nat)) :
    (specOf kind cfg fs prev).version = some (prev.map Prod.fst) := by
  cases prev with
  | none => rfl
  | some vn => rfl

/-- the conclusion of every crash-safety theorem: the resume after `hist` does not raise
and returns an allowed version -/
def SafeAfter (kind : Kind) (P : Protocol) (hist : List Ev) : Prop :=
  ∃ prev, prev ∈ allowed hist ∧
    (resume kind P.cfg (replay kind P hist).top (replay kind P hist).fs).version = some prev

/-! ### standard sampler -/

def trainResult (P : Protocol) (fs : FS) (w len : Nat) (e : Exc) : Option CrashPt → FS
  | none => runProg P.saveWeights .weights ⟨w, 0, len, e⟩ fs
  | some cp => crashState P.saveWeights .weights ⟨w, 0, len, e⟩ fs cp

theorem std_hist_safe (P : Protocol) (hd : DumpSpec P.dump) (hr : ResumeSpec P.cfg)
    (Q : FS → Prop) (okE : Ev → Prop)
    (hQok : ∀ fs, Q fs → ∀ n, stdWeightsResume P.cfg.weights fs n = none)
    (hQframe : ∀ fs fs' : FS, (∀ p : Path, p.fam ≠ .ckpt → fs' p = fs p) → Q fs → Q fs')
    (hQtrain : ∀ fs w len e cp, okE (.train w len e cp) → Q fs → Q (trainResult P fs w len e cp))
    (hQ0 : Q emptyFS) (hist : List Ev) (hok : ∀ e ∈ hist, okE e) : SafeAfter .std P hist := by
  have key := hist_induction .std P (fun s prev => CkptGood s.fs prev ∧ Q s.fs) okE ?_ hist initSys none
    [none] hok ⟨⟨rfl, rfl, rfl, rfl⟩, hQ0⟩ (by simp)
  · obtain ⟨prev, ⟨hg, hq⟩, hm⟩ := key
    refine ⟨prev.map Prod.fst, hm, ?_⟩
    have := hr .std (replay .std P hist).top (replay .std P hist).fs prev hg
      (fun p v n _ _ => hQok _ hq n)
    unfold replay at this ⊢
    rw [this, version_specOf]
  · intro s prev e acc hoke ⟨hg, hq⟩ hm
    cases e with
    | ckpt se v n len cp =>
      cases cp with
      | none =>
        refine ⟨some (v, s.mem), ⟨?_, ?_⟩, allowed_ckpt_done _ _ _ _ _⟩
        · exact dump_run_good hd se ⟨v, s.mem, len, .tornPickle⟩ s.fs hg.1 hg.2.1
        · exact hQframe _ _ (fun p hp => runProg_frame _ _ _ _ _ hp) hq
      | some cp =>
        have hq' : Q (crashState (P.dump se) .ckpt ⟨v, s.mem, len, .tornPickle⟩ s.fs cp) :=
          hQframe _ _ (fun p hp => crashState_frame _ _ _ _ _ _ hp) hq
        rcases dump_crash_good hd se ⟨v, s.mem, len, .tornPickle⟩ s.fs cp prev hg with h | h
        · exact ⟨prev, ⟨h, hq'⟩, (allowed_ckpt_crash acc se v n len cp prev hm).1⟩
        · exact ⟨some (v, s.mem), ⟨h, hq'⟩, (allowed_ckpt_crash acc se v s.mem len cp prev hm).2⟩
    | train w len e cp =>
      refine ⟨prev, ⟨?_, ?_⟩, by rw [allowed_train]; exact hm⟩
      · cases cp with
        | none => exact hg.congr (runProg_frame _ _ _ _ _ (by simp [trainFam])) (runProg_frame _ _ _ _ _ (by simp [trainFam]))
        | some cp => exact hg.congr (crashState_frame _ _ _ _ _ _ (by simp [trainFam])) (crashState_frame _ _ _ _ _ _ (by simp [trainFam]))
      · have := hQtrain s.fs w len e cp hoke hq
        cases cp <;> exact this

/-! ### importance sampler -/

/-- every checkpoint on disk records at most `m` levels -/
def PicklesLe (fs : FS) (m : Nat) : Prop :=
  ∀ p v n, (p = cb ∨ p = co) → fs p = .complete v n → n ≤ m

/-- `.old` never records more levels than the checkpoint next to it -/
def OldLeBase (fs : FS) : Prop :=
  ∀ v n v' n', fs cb = .complete v n → fs co = .complete v' n' → n' ≤ n

def LevelsDone (fs : FS) (m : Nat) : Prop :=
  ∀ i, i < m → ∃ v k, fs ⟨.level i, .base⟩ = .complete v k

structure InsInv (s : Sys) (prev : Option (Nat × Nat)) : Prop where
  good : CkptGood s.fs prev
  ple : PicklesLe s.fs s.mem
  ole : OldLeBase s.fs
  lev : LevelsDone s.fs s.mem
  top : s.mem ≤ s.top

theorem memAfter_specOf_le {cfg : ResumeCfg} {fs : FS} {prev m} (hg : CkptGood fs prev) (hp : PicklesLe fs m) :
    memAfter (specOf .ins cfg fs prev) ≤ m := by
  cases prev with
  | none => simp [specOf, memAfter]
  | some vn =>
    obtain ⟨v, n⟩ := vn
    simp only [specOf, memAfter, weightsBack]
    rcases hg.2.2 with h | ⟨_, h⟩
    · exact hp cb v n (Or.inl rfl) h
    · exact hp co v n (Or.inr rfl) h

/-- after a restart the in-memory level count is what the loaded checkpoint records, and
no checkpoint on disk records more -/
theorem picklesLe_after {cfg : ResumeCfg} {fs : FS} {prev} (hg : CkptGood fs prev) (ho : OldLeBase fs) :
    PicklesLe fs (memAfter (specOf .ins cfg fs prev)) := by
  intro p v n hp hv
  cases prev with
  | none =>
    obtain ⟨_, _, hb, hc⟩ := hg
    rcases hp with rfl | rfl
    · rw [hb] at hv; cases hv
    · rw [hc] at hv; cases hv
  | some vn =>
    obtain ⟨v0, n0⟩ := vn
    simp only [specOf, memAfter, weightsBack]
    rcases hg.2.2 with h | ⟨hab, h⟩
    · rcases hp with rfl | rfl
      · rw [h] at hv; cases hv; exact Nat.le_refl _
      · exact ho v0 n0 v n h hv
    · rcases hp with rfl | rfl
      · rw [hab] at hv; cases hv
      · rw [h] at hv; cases hv; exact Nat.le_refl _

theorem ins_resume_ok {P : Protocol} (hr : ResumeSpec P.cfg) {fs : FS} {prev} {m top : Nat}
    (hg : CkptGood fs prev) (hp : PicklesLe fs m) (hl : LevelsDone fs m) (ht : m ≤ top) :
    resume .ins P.cfg top fs = specOf .ins P.cfg fs prev :=
  hr .ins top fs prev hg (fun p v n hpp hv => ins_ok fs top m n (hp p v n hpp hv) ht hl)

theorem ins_hist_safe (P : Protocol) (hd : DumpSpec P.dump) (hs : SaveSpec P.saveWeights)
    (hr : ResumeSpec P.cfg) (hist : List Ev) : SafeAfter .ins P hist := by
  have key := hist_induction .ins P InsInv (fun _ => True) ?_ hist initSys none [none]
    (fun _ _ => trivial)
    ⟨⟨rfl, rfl, rfl, rfl⟩, fun p v n _ h => by simp [initSys, emptyFS] at h,
      fun v n v' n' h => by simp [initSys, emptyFS] at h, fun i hi => by simp [initSys] at hi,
      Nat.le_refl _⟩ (by simp)
  · obtain ⟨prev, hi, hm⟩ := key
    refine ⟨prev.map Prod.fst, hm, ?_⟩
    have := ins_resume_ok hr hi.good hi.ple hi.lev hi.top
    unfold replay at this ⊢
    rw [this, version_specOf]
  · intro s prev e acc _ hi hm
    cases e with
    | ckpt se v n len cp =>
      cases cp with
      | none =>
        refine ⟨some (v, s.mem), ?_, allowed_ckpt_done _ _ _ _ _⟩
        have hfin := hd.final se ⟨v, s.mem, len, .tornPickle⟩ s.fs
        have hple : PicklesLe (runProg (P.dump se) .ckpt ⟨v, s.mem, len, .tornPickle⟩ s.fs) s.mem := by
          intro p v' n' hp hv
          rcases dump_run_prov hd se ⟨v, s.mem, len, .tornPickle⟩ s.fs p hp with h | h | h | h
          · rw [h] at hv; exact hi.ple cb v' n' (Or.inl rfl) hv
          · rw [h] at hv; exact hi.ple co v' n' (Or.inr rfl) hv
          · rw [h] at hv; cases hv
          · rw [h] at hv; cases hv; exact Nat.le_refl _
        refine ⟨dump_run_good hd se ⟨v, s.mem, len, .tornPickle⟩ s.fs hi.good.1 hi.good.2.1, hple, ?_, ?_, hi.top⟩
        · intro v1 n1 v2 n2 h1 h2
          show n2 ≤ n1
          have e1 := hfin.1
          simp only [step, ckptN] at h1 h2
          rw [e1] at h1; cases h1
          exact hple co v2 n2 (Or.inr rfl) h2
        · intro i hi'
          obtain ⟨v', k, hv⟩ := hi.lev i hi'
          exact ⟨v', k, by simp only [step, ckptN]; rw [runProg_frame _ _ _ _ _ (by simp)]; exact hv⟩
      | some cp =>
        -- the state on disk after the kill
        have hple : PicklesLe (crashState (P.dump se) .ckpt ⟨v, s.mem, len, .tornPickle⟩ s.fs cp) s.mem := by
          intro p v' n' hp hv
          rcases dump_crash_prov hd se ⟨v, s.mem, len, .tornPickle⟩ s.fs cp p hp with h | h | h | h
          · rw [h] at hv; exact hi.ple cb v' n' (Or.inl rfl) hv
          · rw [h] at hv; exact hi.ple co v' n' (Or.inr rfl) hv
          · rw [h] at hv; cases hv
          · rw [h] at hv; cases hv; exact Nat.le_refl _
        have hole : OldLeBase (crashState (P.dump se) .ckpt ⟨v, s.mem, len, .tornPickle⟩ s.fs cp) := by
          intro v1 n1 v2 n2 h1 h2
          rcases hd.views se ⟨v, s.mem, len, .tornPickle⟩ s.fs cp with ⟨e1, e2⟩ | ⟨_, e1, e2⟩ | ⟨_, e1, e2⟩ | ⟨e1, e2⟩
          · rw [e1] at h1; rw [e2] at h2; exact hi.ole v1 n1 v2 n2 h1 h2
          · rw [e1] at h1; cases h1
          · rw [e1] at h1; cases h1; rw [e2] at h2; exact hi.ple cb v2 n2 (Or.inl rfl) h2
          · rw [e1] at h1; cases h1; rw [e2] at h2; exact hi.ple co v2 n2 (Or.inr rfl) h2
        have hlev : LevelsDone (crashState (P.dump se) .ckpt ⟨v, s.mem, len, .tornPickle⟩ s.fs cp) s.mem := by
          intro i hi'
          obtain ⟨v', k, hv⟩ := hi.lev i hi'
          exact ⟨v', k, by rw [crashState_frame _ _ _ _ _ _ (by simp)]; exact hv⟩
        have fin : ∀ prev', CkptGood (crashState (P.dump se) .ckpt ⟨v, s.mem, len, .tornPickle⟩ s.fs cp) prev' →
            InsInv (step .ins P s (.ckpt se v n len (some cp))) prev' := by
          intro prev' hg
          have hres := ins_resume_ok hr hg hple hlev hi.top
          have hle := memAfter_specOf_le (cfg := P.cfg) hg hple
          simp only [step, ckptN]
          rw [hres]
          exact ⟨hg, picklesLe_after hg hole, hole, fun i hi' => hlev i (by dsimp only at hi'; omega), by
            show memAfter (specOf .ins P.cfg _ prev') ≤ s.top
            have := hi.top; omega⟩
        rcases dump_crash_good hd se ⟨v, s.mem, len, .tornPickle⟩ s.fs cp prev hi.good with h | h
        · exact ⟨prev, fin prev h, (allowed_ckpt_crash acc se v n len cp prev hm).1⟩
        · exact ⟨some (v, s.mem), fin _ h, (allowed_ckpt_crash acc se v n len cp prev hm).2⟩
    | train w len e cp =>
      refine ⟨prev, ?_, by rw [allowed_train]; exact hm⟩
      cases cp with
      | none =>
        have hb := runProg_frame P.saveWeights (.level s.mem) ⟨w, 0, len, e⟩ s.fs cb (by simp)
        have ho := runProg_frame P.saveWeights (.level s.mem) ⟨w, 0, len, e⟩ s.fs co (by simp)
        simp only [step, trainFam, trainTop, trainMem]
        refine ⟨hi.good.congr hb ho, ?_, ?_, ?_, ?_⟩
        · intro p v n hp hv
          dsimp only at hv
          have : n ≤ s.mem := by
            rcases hp with rfl | rfl
            · rw [hb] at hv; exact hi.ple cb v n (Or.inl rfl) hv
            · rw [ho] at hv; exact hi.ple co v n (Or.inr rfl) hv
          show n ≤ s.mem + 1
          omega
        · intro v1 n1 v2 n2 h1 h2
          dsimp only at h1 h2
          rw [hb] at h1; rw [ho] at h2; exact hi.ole v1 n1 v2 n2 h1 h2
        · intro i hi'
          dsimp only at hi' ⊢
          by_cases h : i = s.mem
          · rw [h]
            exact ⟨w, 0, hs.final (.level s.mem) ⟨w, 0, len, e⟩ s.fs⟩
          · obtain ⟨v', k, hv⟩ := hi.lev i (by omega)
            refine ⟨v', k, ?_⟩
            rw [runProg_frame _ _ _ _ _ (by simp; omega)]; exact hv
        · show s.mem + 1 ≤ max s.top (s.mem + 1)
          omega
      | some cp =>
        have hb := crashState_frame P.saveWeights (.level s.mem) ⟨w, 0, len, e⟩ s.fs cp cb (by simp)
        have ho := crashState_frame P.saveWeights (.level s.mem) ⟨w, 0, len, e⟩ s.fs cp co (by simp)
        have hg := hi.good.congr hb ho
        have hple : PicklesLe (crashState P.saveWeights (.level s.mem) ⟨w, 0, len, e⟩ s.fs cp) s.mem := by
          intro p v n hp hv
          rcases hp with rfl | rfl
          · rw [hb] at hv; exact hi.ple cb v n (Or.inl rfl) hv
          · rw [ho] at hv; exact hi.ple co v n (Or.inr rfl) hv
        have hole : OldLeBase (crashState P.saveWeights (.level s.mem) ⟨w, 0, len, e⟩ s.fs cp) := by
          intro v1 n1 v2 n2 h1 h2
          rw [hb] at h1; rw [ho] at h2; exact hi.ole v1 n1 v2 n2 h1 h2
        have hlev : LevelsDone (crashState P.saveWeights (.level s.mem) ⟨w, 0, len, e⟩ s.fs cp) s.mem := by
          intro i hi'
          obtain ⟨v', k, hv⟩ := hi.lev i hi'
          refine ⟨v', k, ?_⟩
          rw [crashState_frame _ _ _ _ _ _ (by simp; omega)]; exact hv
        have htop : s.mem ≤ max s.top (s.mem + 1) := by omega
        have hres := ins_resume_ok hr hg hple hlev htop
        have hle := memAfter_specOf_le (cfg := P.cfg) hg hple
        simp only [step, trainFam, trainTop]
        rw [hres]
        exact ⟨hg, picklesLe_after hg hole, hole, fun i hi' => hlev i (by dsimp only at hi'; omega), by
          show memAfter (specOf .ins P.cfg _ prev) ≤ max s.top (s.mem + 1)
          omega⟩

end NessaiVerif.CrashFS
