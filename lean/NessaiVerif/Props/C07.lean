import NessaiVerif.Proofs.ReparamBox
import NessaiVerif.Proofs.ReparamPrior
import NessaiVerif.Proofs.ReparamCombine
import NessaiVerif.Proofs.ReparamReal
import NessaiVerif.Gen.RescaleTx
/-
C07 — reparameterisations are exact bijections with consistent Jacobians and priors.   PARTIAL (see the end of the file).
Property theorems only.  Stage 1 (any linearly ordered field `K`, so ℚ — what the driver executes — and ℝ): the affine
family.  Stage 2 (ℝ): the transcendental maps.  Jacobians are multiplicative factors `J` in stage 1; the code stores
`log J`.  "J_fwd · J_inv = 1" says "the two log-Jacobians are negatives of each other" only when both factors are
positive — the theorems therefore also conclude `0 < J` (under `b0 < b1`), and `rtb_jac_fails_without_ordered_bounds`
records what happens otherwise (the code takes the log of a negative number: NaN).  Log-Jacobians are used in stage 2.
-/
namespace NessaiVerif.C07
open NessaiVerif.Reparam

section Exact
variable {K : Type} [Field K] [LinearOrder K] [IsStrictOrderedRing K]

/-! ## ScaleAndShift / Rescale -/

/-- ScaleAndShift with a non-zero scale (given, or estimated by `update`): mapping forward and back returns the
original value and the two Jacobian factors (`1/|s|`, `|s|`: positive) multiply to one. -/
theorem ss_roundtrip_jac_inv (r : SS K) (s x : K) (hs : r.scale = some s) (h0 : s ≠ 0) :
    ∃ y j j', ssFwd r x = .ok (y, j) ∧ ssInv r y = .ok (x, j') ∧ j * j' = 1 :=
  ss_lawful r s x hs h0

example := ss_roundtrip_jac_inv (K := ℚ) ⟨some (-4), some 1, false, false⟩ (-4) 3 rfl (by norm_num)

example : (ssFwd (⟨some 4, some 1, false, false⟩ : SS Rat) 3).toOption = some (1 / 2, 1 / 4) ∧
    (ssInv (⟨some 4, some 1, false, false⟩ : SS Rat) (1 / 2)).toOption = some (3, 4) := by decide +kernel

/-- the guard `scale ≠ 0` is needed: a zero scale (e.g. `np.std` of constant data after `update`) collapses every point -/
theorem ss_roundtrip_fails_without :
    ∃ y j, ssFwd (⟨some 0, none, true, false⟩ : SS Rat) 3 = .ok (y, j) ∧
      (ssInv (⟨some 0, none, true, false⟩ : SS Rat) y).toOption ≠ some (3, 1) :=
  ⟨0, 0, by decide +kernel, by decide +kernel⟩

/-- ScaleAndShift: the reported factor `1/|scale|` does not depend on the point and is the absolute slope of the map,
`|f x − f y| = J·|x − y|`, i.e. exactly `|det J|` of the one-dimensional map. -/
theorem ss_jac_is_derivative (r : SS K) (s : K) (hs : r.scale = some s) (h0 : s ≠ 0) :
    ∃ J : K, 0 ≤ J ∧ ∀ x y, ∃ fx fy, ssFwd r x = .ok (fx, J) ∧ ssFwd r y = .ok (fy, J) ∧ |fx - fy| = J * |x - y| := by
  obtain ⟨J, hJ, hc, hd⟩ := ss_affineJ s r.shift h0
  refine ⟨J, hJ, fun x y => ⟨(ssF s r.shift x).1, (ssF s r.shift y).1, ?_, ?_, hd x y⟩⟩
  · rw [ssFwd_eq r s x hs, ← hc x]
  · rw [ssFwd_eq r s y hs, ← hc y]

example := ss_jac_is_derivative (K := ℚ) ⟨some (-2), none, false, false⟩ (-2) rfl (by norm_num)

/-- `update` of the z-score variant sets scale := std(data) and shift := mean(data): with the data 4, 4, 6, 6 the
model accepts the witness 1 for the square root and the updated map sends the mean to 0. -/
theorem ss_update_example :
    (ssUpdate (⟨some 1, some 0, true, true⟩ : SS Rat) [4, 4, 6, 6] 1).map (fun r => (r.scale, r.shift)) = some (some 1, some 5) := by
  decide +kernel

/-! ## the elementary rescalings of nessai/utils/rescaling.py -/

/-- `rescale_zero_to_one` / `inverse_rescale_zero_to_one` and `rescale_minus_one_to_one` / inverse are mutually inverse with
reciprocal Jacobian factors whenever `xmin ≠ xmax`. -/
theorem utils_roundtrip_jac_inv (a b x : K) (h : a ≠ b) :
    ((inverseRescaleZeroToOne (rescaleZeroToOne x a b).1 a b).1 = x ∧
     (rescaleZeroToOne x a b).2 * (inverseRescaleZeroToOne (rescaleZeroToOne x a b).1 a b).2 = 1) ∧
    ((inverseRescaleMinusOneToOne (rescaleMinusOneToOne x a b).1 a b).1 = x ∧
     (rescaleMinusOneToOne x a b).2 * (inverseRescaleMinusOneToOne (rescaleMinusOneToOne x a b).1 a b).2 = 1) :=
  ⟨z2o_lawful a b x h, m2o_lawful a b x h⟩

example := utils_roundtrip_jac_inv (2 : ℚ) 6 3 (by norm_num)

example : (rescaleMinusOneToOne (3 : Rat) 2 6, inverseRescaleMinusOneToOne (-1 / 2 : Rat) 2 6) = ((-1 / 2, 1 / 2), (3, 2)) := by
  decide +kernel

/-! ## RescaleToBounds -/

/-- **Round trip and Jacobian consistency of RescaleToBounds** for one parameter, any state (before or after `update`), any
rescale bounds / offset / inversion type / edge decision / sign bit, any pre- and post-rescaling hooks, under the exact
regularity guard: bounds in order (`b0 < b1`), target interval non-degenerate when no inversion is configured, the
reflected value on the kept side of the edge, hooks lawful with positive factors at the points where they are applied.
Conclusion: the inverse returns the point, `J_fwd · J_inv = 1`, and both factors are strictly positive — so the two
log-Jacobians the code reports are finite and negatives of each other. -/
theorem rtb_roundtrip_jac_inv (r : Rtb K) (neg : Bool) (x : K) (hb : r.b0 < r.b1) (hf : r.FactorOK)
    (hok : r.ReflectOK (r.preF x).1) (hh : r.HooksOK neg x) (hp : r.HooksPos neg x) :
    (rtbInv r (rtbFwd r neg x).1).1 = x ∧ (rtbFwd r neg x).2 * (rtbInv r (rtbFwd r neg x).1).2 = 1 ∧
    0 < (rtbFwd r neg x).2 ∧ 0 < (rtbInv r (rtbFwd r neg x).1).2 :=
  let h := rtb_lawful_pos r neg x hb hf hok hh hp
  ⟨h.1.1, h.1.2, h.2.1, h.2.2⟩

/-- applied: reflection about the lower edge with the sign bit set, bounds [1/4, 3/4], offset 1/2, at x = 1 -/
example :=
  rtb_roundtrip_jac_inv (K := ℚ) ⟨0, 1, 0, 1, some .split, true, none, none, false, 1 / 2, -1 / 4, 1 / 4, .lower⟩ true 1
    (by norm_num) (fun h => by cases h)
    (fun _ => by rw [if_neg (by decide)]; simp only [Rtb.unit, Rtb.preF]; norm_num)
    (hooksOK_none _ _ _ rfl rfl) (hooksPos_none _ _ _ rfl rfl)

/-- non-vacuity on the executable model: offset, update to data [1/4, 3/4], reflection about the upper edge with the sign bit set -/
example :
    let r := rtbDetect (rtbUpdate (rtbMk (0 : Rat) 1 none (some .split) true true true none none false true) [1 / 4, 3 / 4]) .upper
    rtbFwd r true (3 / 4) = (0, 2) ∧ rtbInv r 0 = (3 / 4, 1 / 2) ∧ rtbFwd r true (1 / 2) = (-1 / 2, 2) ∧
      rtbInv r (-1 / 2) = (1 / 2, 1 / 2) := by decide +kernel

/-- the hypothesis `b0 < b1` (rather than `b0 ≠ b1`) is needed for the *Jacobian* clause: with a decreasing pre-rescaling
`x ↦ −x` (a lawful hook pair) the bounds come out reversed, the round trip still holds, but the reported factor is negative:
the code's `log_j` is the log of a negative number (NaN).  (`FlowProposal.verify_rescaling` refuses this configuration.) -/
theorem rtb_jac_fails_without_ordered_bounds :
    let r := rtbMk (0 : Rat) 1 none none false false true (some (Hook.affine (-1) 0)) none false false
    r.b1 < r.b0 ∧ (rtbInv r (rtbFwd r false (1 / 4)).1).1 = 1 / 4 ∧ (rtbFwd r false (1 / 4)).2 < 0 := by decide +kernel

/-- **Every point of the prior box, before any update**: for the state the constructor builds (any rescale bounds with distinct
ends, offset on/off, any inversion type, any edge decision, any sign bit) the round trip, `J_fwd · J_inv = 1` and positivity of
both factors hold at every `x ∈ [p0, p1]` — both bounds included. -/
theorem rtb_lawful_on_prior_box (p0 p1 : K) (rb : Option (K × K)) (inv : Option InvType) (oinv det off upd prior : Bool)
    (r0 : Rtb K) (hp : p0 < p1) (hrb : ∀ b, rb = some b → b.1 ≠ b.2)
    (h : rtbInit p0 p1 rb inv oinv det off upd none none false prior = .ok r0)
    (test : Edge) (neg : Bool) (x : K) (hx0 : p0 ≤ x) (hx1 : x ≤ p1) :
    (rtbInv (rtbDetect r0 test) (rtbFwd (rtbDetect r0 test) neg x).1).1 = x ∧
    (rtbFwd (rtbDetect r0 test) neg x).2 * (rtbInv (rtbDetect r0 test) (rtbFwd (rtbDetect r0 test) neg x).1).2 = 1 ∧
    0 < (rtbFwd (rtbDetect r0 test) neg x).2 ∧
    0 < (rtbInv (rtbDetect r0 test) (rtbFwd (rtbDetect r0 test) neg x).1).2 :=
  let h := rtb_lawful_on_box p0 p1 rb inv oinv det off upd prior r0 hp hrb h test neg x hx0 hx1
  ⟨h.1.1, h.1.2, h.2.1, h.2.2⟩

/-- applied: duplicate inversion with edge detection, offset, edge decision `upper`, sign bit set, at the upper prior bound -/
example :=
  rtb_lawful_on_prior_box (0 : ℚ) 4 none (some .duplicate) true true true true true
    (rtbMk 0 4 none (some .duplicate) true true true none none false true)
    (by norm_num) (fun b hb => by cases hb) rfl .upper true 4 (by norm_num) (by norm_num)

/-- **After the data-dependent update** (bounds := data min / max): round trip, `J_fwd · J_inv = 1` and positive factors hold at
*every* point when nothing is reflected, and at the points on the data range of the reflecting side when an edge is inverted. -/
theorem rtb_lawful_after_update (r0 : Rtb K) (d : K) (ds : List K) (hupd : r0.update = true)
    (hpre : r0.pre = none) (hpost : r0.post = none) (hf : r0.FactorOK)
    (hmM : minL d ds < maxL d ds) (test : Edge) (neg : Bool) (x : K)
    (hside : (rtbDetect (rtbUpdate r0 (d :: ds)) test).reflects →
      if (rtbDetect (rtbUpdate r0 (d :: ds)) test).edge = .upper then x ≤ maxL d ds else minL d ds ≤ x) :
    let r := rtbDetect (rtbUpdate r0 (d :: ds)) test
    (rtbInv r (rtbFwd r neg x).1).1 = x ∧ (rtbFwd r neg x).2 * (rtbInv r (rtbFwd r neg x).1).2 = 1 ∧
    0 < (rtbFwd r neg x).2 ∧ 0 < (rtbInv r (rtbFwd r neg x).1).2 :=
  let h := Reparam.rtb_lawful_after_update r0 d ds hupd hpre hpost hf hmM test neg x hside
  ⟨h.1.1, h.1.2, h.2.1, h.2.2⟩

/-- applied: split inversion, data 1/4, 3/4, 1/2, edge `lower`, the point 7/8 (above the data maximum: not the reflecting side) -/
example :=
  rtb_lawful_after_update (K := ℚ) (rtbMk 0 1 none (some .split) true false true none none false false) (1 / 4) [3 / 4, 1 / 2]
    rfl rfl rfl (fun h => by cases h) (by decide +kernel) .lower true (7 / 8) (fun _ => by decide +kernel)

/-- the side condition of `rtb_lawful_after_update` is needed — and the unchanged code violates the property here: after
`update` with data in [1/4, 3/4], edge `lower`, the prior-box point 1/8 maps to −1/4 and comes back as 3/8. -/
theorem rtb_roundtrip_fails_without_reflect_guard :
    let r := rtbDetect (rtbUpdate (rtbMk (0 : Rat) 1 none (some .split) true false true none none false false) [1 / 4, 3 / 4]) .lower
    rtbFwd r false (1 / 8) = (-1 / 4, 2) ∧ rtbInv r (-1 / 4) = (3 / 8, 1 / 2) := by decide +kernel

/-- the bounds must be distinct (constant data after `update`): everything collapses -/
theorem rtb_roundtrip_fails_without_distinct_bounds :
    let r := rtbUpdate (rtbMk (0 : Rat) 1 none none false false true none none false false) [1 / 2, 1 / 2]
    (rtbInv r (rtbFwd r false (1 / 4)).1).1 ≠ 1 / 4 := by decide +kernel

/-- **The reported Jacobian is the derivative.**  With bounds in order and hooks whose factor is their absolute slope (none, or
affine), the factor reported by `reparameterise` is one non-negative constant `J` — it does not depend on the point — and
`|f x − f y| = J·|x − y|` for all points: `J` is exactly `|det J|` of the map, the allowed constant is zero. -/
theorem rtb_jac_is_derivative (r : Rtb K) (neg : Bool) (hb : r.b0 < r.b1) (hpre : AffineJ r.preF) (hpost : AffineJ r.postF) :
    ∃ J : K, 0 ≤ J ∧ (∀ x, (rtbFwd r neg x).2 = J) ∧ ∀ x y, |(rtbFwd r neg x).1 - (rtbFwd r neg y).1| = J * |x - y| :=
  rtbFwd_affineJ r neg hb hpre hpost

/-- applied: an affine pre-rescaling `2x + 1`, no post-rescaling, reflection about the upper edge -/
example :=
  rtb_jac_is_derivative (K := ℚ) ⟨0, 1, 0, 1, some .duplicate, true, some (Hook.affine 2 1), none, false, 0, 1, 3, .upper⟩ true
    (by norm_num) (Hook.affine_affineJ 2 1) AffineJ.id

end Exact

section Combine
variable {K : Type} [Field K]

/-! ## Null, composition, CombinedReparameterisation, the FlowProposal layer -/

/-- a one-parameter object built from scalar maps that are mutually inverse with reciprocal factors on `D` is `Lawful`:
it reads only its own parameter, writes only its own prime parameter, leaves every other field of `x` and `x_prime`
untouched, and round-trips on `D`.  (RescaleToBounds, ScaleAndShift and Null parameters are such objects.) -/
theorem scalar_object_lawful {ι κ : Type} [DecidableEq ι] [DecidableEq κ] (p : ι) (pp : κ) (f g : K → K × K) (D : K → Prop)
    (h : ∀ a, D a → (g (f a).1).1 = a ∧ (f a).2 * (g (f a).1).2 = 1) :
    Lawful (ofScalar p pp f g) (fun i => i = p) (fun k => k = pp) (fun x => D (x p)) :=
  ofScalar_lawful p pp f g D h

example := scalar_object_lawful (K := ℚ) (0 : ℕ) (0 : ℕ) (fun x => (x / 2, 1 / 2)) (fun y => (y * 2, 2)) (fun _ => True)
  (fun a _ => ⟨by ring, by norm_num⟩)

/-- NullReparameterisation is lawful everywhere with Jacobian factor one -/
theorem null_lawful {ι : Type} [DecidableEq ι] (p : ι) :
    Lawful (nullReparam p : Reparam (ι → K) (ι → K) K) (fun i => i = p) (fun k => k = p) (fun _ => True) :=
  (ofScalar_lawful p p (fun x => (x, 1)) (fun x => (x, 1)) (fun _ => True) (fun a _ => ⟨rfl, by simp⟩))

/-- **Closure under composition**: applying lawful objects on disjoint parameters one after the other and inverting them in
the reverse order is lawful for the union of the parameters. -/
theorem lawful_compose {ι κ : Type} {r1 r2 : Reparam (ι → K) (κ → K) K} {P1 P2 : ι → Prop} {PP1 PP2 : κ → Prop}
    {D1 D2 : (ι → K) → Prop} (h1 : Lawful r1 P1 PP1 D1) (h2 : Lawful r2 P2 PP2 D2)
    (hP : ∀ i, ¬ (P1 i ∧ P2 i)) (hPP : ∀ k, ¬ (PP1 k ∧ PP2 k)) :
    Lawful (compose r1 r2) (fun i => P1 i ∨ P2 i) (fun k => PP1 k ∨ PP2 k) (fun x => D1 x ∧ D2 x) :=
  h1.comp h2 hP hPP

example := lawful_compose (null_lawful (K := ℚ) (0 : ℕ)) (null_lawful (K := ℚ) (1 : ℕ))
  (fun i h => by omega) (fun k h => by omega)

/-- **CombinedReparameterisation round trip** — any list of lawful objects on pairwise disjoint parameters, either value of
`reverse_order`: `inverse_reparameterise` applied to a fresh `x` and the forward `x_prime` returns every reparameterised
parameter, for every starting `x_prime` and every accumulated log-Jacobian. -/
theorem combined_roundtrip {ι κ : Type} (es : List (Entry ι κ K)) (h : AllLawful es) (rev : Bool)
    (x : ι → K) (xp : κ → K) (j : K) (y : ι → K) (j' : K) (hD : allD es x) (i : ι) (hi : unionP es i) :
    ((combined (es.map (·.rep)) rev).inv (y, ((combined (es.map (·.rep)) rev).fwd (x, xp, j)).2.1, j')).1 i = x i :=
  (combined_lawful es h rev).roundtrip x xp j y j' hD i hi

/-- applied to the two-object list `exampleEntries` (a Rescale on parameter 0, a Null on parameter 1), reversed order -/
example (x xp y : ℕ → ℚ) :=
  combined_roundtrip exampleEntries exampleEntries_lawful true x xp 1 y 1
    (fun e he => by simp only [exampleEntries, List.mem_cons, List.not_mem_nil, or_false] at he; rcases he with rfl | rfl <;> trivial)
    0 ⟨_, List.mem_cons_self, rfl⟩

/-- **CombinedReparameterisation Jacobians**: the accumulated forward and inverse factors multiply to one -/
theorem combined_jac {ι κ : Type} (es : List (Entry ι κ K)) (h : AllLawful es) (rev : Bool)
    (x : ι → K) (xp : κ → K) (y : ι → K) (hD : allD es x) :
    ((combined (es.map (·.rep)) rev).fwd (x, xp, 1)).2.2 *
      ((combined (es.map (·.rep)) rev).inv (y, ((combined (es.map (·.rep)) rev).fwd (x, xp, 1)).2.1, 1)).2.2 = 1 :=
  (combined_lawful es h rev).jac x xp y hD

example (x xp y : ℕ → ℚ) :=
  combined_jac exampleEntries exampleEntries_lawful false x xp y
    (fun e he => by simp only [exampleEntries, List.mem_cons, List.not_mem_nil, or_false] at he; rcases he with rfl | rfl <;> trivial)

/-- **Non-sampling fields (and every field no object owns) are untouched**: forward never changes `x`, changes `x_prime` only
at owned prime parameters; inverse never changes `x_prime`, changes `x` only at owned parameters. -/
theorem nonsampling_untouched {ι κ : Type} (es : List (Entry ι κ K)) (h : AllLawful es) (rev : Bool)
    (s : (ι → K) × (κ → K) × K) :
    ((combined (es.map (·.rep)) rev).fwd s).1 = s.1 ∧
    (∀ k, ¬ unionPP es k → ((combined (es.map (·.rep)) rev).fwd s).2.1 k = s.2.1 k) ∧
    ((combined (es.map (·.rep)) rev).inv s).2.1 = s.2.1 ∧
    (∀ i, ¬ unionP es i → ((combined (es.map (·.rep)) rev).inv s).1 i = s.1 i) :=
  let L := combined_lawful es h rev
  ⟨L.fwd_x s, L.fwd_frame s, L.inv_xp s, L.inv_frame s⟩

example (s : (ℕ → ℚ) × (ℕ → ℚ) × ℚ) := nonsampling_untouched exampleEntries exampleEntries_lawful true s

/-- **FlowProposal.rescale / inverse_rescale**: with any lawful combined reparameterisation and non-sampling names that no
object owns, the reparameterised parameters come back, the non-sampling fields are copied to `x_prime` and back unchanged,
and `log_J` of `rescale` is minus `log_J` of `inverse_rescale`. -/
theorem proposal_rescale_roundtrip {ι : Type} [DecidableEq ι] (c : Reparam (ι → K) (ι → K) K) (P PP : ι → Prop)
    (D : (ι → K) → Prop) (hc : Lawful c P PP D) (ns : List ι) (hnsP : ∀ p ∈ ns, ¬ P p) (hnsPP : ∀ p ∈ ns, ¬ PP p)
    (e e' x : ι → K) (hD : D x) :
    (∀ i, P i → (proposalInverseRescale c ns e' (proposalRescale c ns e x).1).1 i = x i) ∧
    (∀ p ∈ ns, (proposalRescale c ns e x).1 p = x p ∧
               (proposalInverseRescale c ns e' (proposalRescale c ns e x).1).1 p = x p) ∧
    (proposalRescale c ns e x).2 * (proposalInverseRescale c ns e' (proposalRescale c ns e x).1).2 = 1 :=
  proposal_roundtrip c P PP D hc ns hnsP hnsPP e e' x hD

/-- applied: a Null object on field 0, non-sampling fields 7, 8, 9 (logP, logL, it) -/
example (e e' x : ℕ → ℚ) :=
  proposal_rescale_roundtrip (nullReparam (0 : ℕ)) _ _ _ (null_lawful (K := ℚ) 0) [7, 8, 9]
    (fun p hp => by simp only [List.mem_cons, List.not_mem_nil, or_false] at hp; omega)
    (fun p hp => by simp only [List.mem_cons, List.not_mem_nil, or_false] at hp; omega) e e' x trivial

example : (proposalRescale (nullReparam (0 : Nat)) [7] (fun _ => (0 : Rat)) (fun i => if i = 0 then 5 else if i = 7 then 3 else 0)).1 7 = 3 := by
  decide +kernel

end Combine

section Prior
variable {K : Type} [Field K] [LinearOrder K] [IsStrictOrderedRing K]

/-! ## prime-space prior -/

/-- **Support of the prime prior, no reflection** (no inversion configured, any state before or after `update`, any target
interval `r0 < r1`): the bounds `update_prime_prior_bounds` stores are exactly the image of the (pre-rescaled) prior interval
under the forward map: every prior point lands inside, every point inside is hit. -/
theorem prime_prior_support_plain (r : Rtb K) (hp : r.hasPrimePrior = true) (hinv : r.inversion = none)
    (hb : r.b0 < r.b1) (hr : r.r0 < r.r1) :
    ∃ lo hi, rtbPrimeBounds r = some (some (lo, hi)) ∧ IsImage r lo hi :=
  image_plain r hp hinv hb hr

/-- applied: prior [0, 4], bounds updated to the data range [1, 3], target interval [−3, 7] -/
example := prime_prior_support_plain (K := ℚ) ⟨0, 4, -3, 7, none, true, none, none, true, 0, 1, 3, .unset⟩ rfl rfl
  (by norm_num) (by norm_num)

/-- the same when inversion is configured but the edge decision is "none" (`False`) or not yet taken -/
theorem prime_prior_support_inversion_off (r : Rtb K) (hp : r.hasPrimePrior = true) (t : InvType)
    (hinv : r.inversion = some t) (he : r.edge = .unset ∨ r.edge = .off) (hb : r.b0 < r.b1) :
    ∃ lo hi, rtbPrimeBounds r = some (some (lo, hi)) ∧ IsImage r lo hi :=
  image_inversion_off r hp t hinv he hb

example := prime_prior_support_inversion_off (K := ℚ) ⟨0, 4, 0, 1, some .split, true, none, none, true, 0, 1, 3, .off⟩ rfl .split rfl
  (Or.inr rfl) (by norm_num)

/-- reflection about the lower edge, the lower prior bound on the edge (the state before any update): the stored bounds
`(−upper, upper)` are the image of the prior interval over both sign choices -/
theorem prime_prior_support_lower (r : Rtb K) (hp : r.hasPrimePrior = true) (t : InvType) (hinv : r.inversion = some t)
    (he : r.edge = .lower) (hb : r.b0 < r.b1) (hedge : r.P0 - r.offset = r.b0) :
    ∃ lo hi, rtbPrimeBounds r = some (some (lo, hi)) ∧ IsImage r lo hi :=
  image_lower r hp t hinv he hb hedge

example := prime_prior_support_lower (K := ℚ) ⟨0, 4, 0, 1, some .split, true, none, none, true, 2, -2, 2, .lower⟩ rfl .split rfl rfl
  (by norm_num) (by simp only [Rtb.P0, Rtb.preF]; norm_num)

/-- reflection about the upper edge, the upper prior bound on the edge: stored bounds `(lower − 1, 1 − lower)` -/
theorem prime_prior_support_upper (r : Rtb K) (hp : r.hasPrimePrior = true) (t : InvType) (hinv : r.inversion = some t)
    (he : r.edge = .upper) (hb : r.b0 < r.b1) (hedge : r.P1 - r.offset = r.b1) :
    ∃ lo hi, rtbPrimeBounds r = some (some (lo, hi)) ∧ IsImage r lo hi :=
  image_upper r hp t hinv he hb hedge

example := prime_prior_support_upper (K := ℚ) ⟨0, 4, 0, 1, some .duplicate, true, none, none, true, 2, -2, 2, .upper⟩ rfl .duplicate
  rfl rfl (by norm_num) (by simp only [Rtb.P1, Rtb.preF]; norm_num)

example :
    let r := rtbDetect (rtbMk (0 : Rat) 4 none (some .duplicate) true true true none none false true) .upper
    r.hasPrimePrior = true ∧ r.b0 < r.b1 ∧ r.P1 - r.offset = r.b1 ∧ rtbPrimeBounds r = some (some (-1, 1)) := by
  decide +kernel

/-- **Value of the prime prior = prior / J up to a constant** (affine family, uniform original prior of any density `c ≠ 0` on
the box, no hooks): whenever the stored bounds are the image (the four theorems above), the offered prime prior — the
indicator of the stored bounds, `exp(log_uniform_prior)` — equals `k · c / J(x)` at the image of every prior point, with one
constant `k` for all points and both sign bits: `J` is a positive constant, so `prior / J` is constant on the image. -/
theorem prime_prior_value (r : Rtb K) (lo hi : K) (himg : IsImage r lo hi) (hb : r.b0 < r.b1) (hf : r.FactorOK)
    (hpre : r.pre = none) (hpost : r.post = none) (c : K) (hc : c ≠ 0) :
    ∃ k : K, ∀ x neg, r.p0 ≤ x → x ≤ r.p1 →
      uniformPriorFactor (rtbFwd r neg x).1 lo hi = k * (c / (rtbFwd r neg x).2) :=
  Reparam.prime_prior_value r lo hi himg hb hf hpre hpost c hc

/-- applied to the image obtained from `prime_prior_support_plain`, prior density 1/4 on [0, 4] -/
example : ∃ lo hi k : ℚ, ∀ x neg, (0 : ℚ) ≤ x → x ≤ 4 →
    uniformPriorFactor (rtbFwd ⟨0, 4, -3, 7, none, true, none, none, true, 0, 1, 3, .unset⟩ neg x).1 lo hi
      = k * ((1 / 4) / (rtbFwd ⟨0, 4, -3, 7, none, true, none, none, true, 0, 1, 3, .unset⟩ neg x).2) := by
  obtain ⟨lo, hi, _, himg⟩ := prime_prior_support_plain (K := ℚ) ⟨0, 4, -3, 7, none, true, none, none, true, 0, 1, 3, .unset⟩
    rfl rfl (by norm_num) (by norm_num)
  obtain ⟨k, hk⟩ := prime_prior_value _ lo hi himg (by norm_num) (fun _ => by norm_num) rfl rfl (1 / 4) (by norm_num)
  exact ⟨lo, hi, k, hk⟩

omit [Field K] [IsStrictOrderedRing K] in
/-- `log_uniform_prior` is finite exactly on the closed interval of the stored bounds -/
theorem prime_prior_indicator (x lo hi : K) : inUniformSupport x lo hi = true ↔ lo ≤ x ∧ x ≤ hi :=
  inUniformSupport_iff x lo hi

/-- edge decision `both` is *not* covered, and the unchanged code breaks the property there: `_apply_inversion` treats it like
`lower` (image [−1, 1]) but `determine_rescaled_bounds` stores (−1/2, 3/2): the image −3/4 of the prior point 3/4 is outside. -/
theorem prime_prior_support_both_fails :
    let r := rtbDetect (rtbMk (0 : Rat) 1 none (some .duplicate) false false true none none false true) .both
    rtbPrimeBounds r = some (some (-1 / 2, 3 / 2)) ∧ (rtbFwd r true (3 / 4)).1 = -3 / 4 ∧
      inUniformSupport (rtbFwd r true (3 / 4)).1 (-1 / 2) (3 / 2) = false := by decide +kernel

/-- the hypothesis `r0 < r1` is needed: with reversed rescale bounds `[1, −1]` the map still sends the box onto [1, 3]
(factor = `ptp` = 2) but the stored bounds are (1, −1), an empty support -/
theorem prime_prior_support_fails_without_ordered_rescale_bounds :
    let r := rtbMk (0 : Rat) 1 (some (1, -1)) none false false true none none false true
    rtbPrimeBounds r = some (some (1, -1)) ∧ (rtbFwd r false 1).1 = 3 := by decide +kernel

/-- the hypothesis "prior bound on the edge" of `prime_prior_support_lower` is needed: after `update` to [1/2, 3/4] the stored
bounds are (−2, 2) but the map is no longer injective on the box (3/4 and 1/4 share the image 1) -/
theorem prime_prior_support_lower_fails_after_update :
    let r := rtbDetect (rtbUpdate (rtbMk (0 : Rat) 1 none (some .split) true false true none none false true) [1 / 2, 3 / 4]) .lower
    rtbPrimeBounds r = some (some (-2, 2)) ∧ (rtbFwd r false 0).1 = -2 ∧ (rtbFwd r false (3 / 4)).1 = 1 ∧
      (rtbFwd r true (1 / 4)).1 = 1 := by decide +kernel

end Prior

/-! ## Stage 2 — transcendental maps over ℝ.  The tie to the NumPy code is the numeric oracle of the check. -/

section Real
open Real

/-- logit / sigmoid (`eps=None`): on the open unit interval the sigmoid undoes the logit, the two log-Jacobians are
negatives of each other, and the logit has derivative `exp(log_j)`: the reported log-Jacobian is `log|f'|` exactly. -/
theorem logit_roundtrip_jac (x : ℝ) (h0 : 0 < x) (h1 : x < 1) :
    (sigmoidLJ (logitLJ 0 x).1).1 = x ∧ (logitLJ 0 x).2 + (sigmoidLJ (logitLJ 0 x).1).2 = 0 ∧
    HasDerivAt (fun t => (logitLJ 0 t).1) (exp (logitLJ 0 x).2) x :=
  ⟨sigmoid_logit x h0 h1, logit_sigmoid_logJ x h0 h1, logit_hasDerivAt x h0 h1⟩

example := logit_roundtrip_jac (1 / 3) (by norm_num) (by norm_num)

/-- with a clamp `eps` the function coincides with the unclamped logit exactly on `[eps, 1 − eps]` (outside it is constant,
hence not injective — RescaleToBounds never passes `eps`) -/
theorem logit_eps_partial (eps x : ℝ) (h0 : eps ≤ x) (h1 : x ≤ 1 - eps) : logitLJ eps x = logitLJ 0 x :=
  logit_eps_eq eps x h0 h1

example := logit_eps_partial (1 / 4) (1 / 2) (by norm_num) (by norm_num)

/-- log / exp pre- and post-rescalings: mutually inverse (log needs `x > 0`), log-Jacobians negatives, derivatives
`exp(log_j)` -/
theorem log_exp_roundtrip_jac (x y : ℝ) (h0 : 0 < x) :
    ((expLJ (logLJ x).1).1 = x ∧ (logLJ x).2 + (expLJ (logLJ x).1).2 = 0) ∧
    ((logLJ (expLJ y).1).1 = y ∧ (expLJ y).2 + (logLJ (expLJ y).1).2 = 0) ∧
    HasDerivAt (fun t => (logLJ t).1) (exp (logLJ x).2) x ∧ HasDerivAt (fun t => (expLJ t).1) (exp (expLJ y).2) y :=
  ⟨exp_log_roundtrip x h0, log_exp_roundtrip y, log_hasDerivAt x h0, exp_hasDerivAt y⟩

example := log_exp_roundtrip_jac 2 (-3) (by norm_num)

/-- the named hooks `log` / `exp` / `logit` (factor = exp of the log-Jacobian) satisfy the hook hypotheses of
`rtb_roundtrip_jac_inv` on their domains -/
theorem named_hooks_lawful (x : ℝ) :
    (0 < x → logHook.LawfulAt x) ∧ expHook.LawfulAt x ∧ (0 < x → x < 1 → logitHook.LawfulAt x) :=
  ⟨logHook_lawful x, expHook_lawful x, logitHook_lawful x⟩

example : logitHook.LawfulAt (1 / 2) := (named_hooks_lawful (1 / 2)).2.2 (by norm_num) (by norm_num)

/-- **The registered `logit` object end to end** (`get_reparameterisation("logit")`: rescale bounds [0, 1], `update_bounds=False`,
post-rescaling logit; `offset` either way): at every point of the *open* prior interval the round trip holds, the two Jacobian
factors are positive and reciprocal (log-Jacobians finite and negatives of each other), the forward map is differentiable
and the reported factor is the absolute value of its derivative. -/
theorem logit_object_lawful (p0 p1 x : ℝ) (off neg : Bool) (hp : p0 < p1) (h0 : p0 < x) (h1 : x < p1) :
    let r := namedPostObject logitHook p0 p1 off
    ((rtbInv r (rtbFwd r neg x).1).1 = x ∧ (rtbFwd r neg x).2 * (rtbInv r (rtbFwd r neg x).1).2 = 1 ∧
      0 < (rtbFwd r neg x).2 ∧ 0 < (rtbInv r (rtbFwd r neg x).1).2) ∧
    ∃ d, HasDerivAt (fun t => (rtbFwd r neg t).1) d x ∧ |d| = (rtbFwd r neg x).2 :=
  let h := logitObject_lawful p0 p1 x off neg hp h0 h1
  ⟨⟨h.1.1.1, h.1.1.2, h.1.2.1, h.1.2.2⟩, h.2⟩

example := logit_object_lawful (-2) 6 5 true false (by norm_num) (by norm_num) (by norm_num)

/-- **The registered `log-rescale` object end to end**: the same on `(p0, p1]` — the upper bound, where the map is finite,
included; only the lower bound is singular. -/
theorem log_rescale_object_lawful (p0 p1 x : ℝ) (off neg : Bool) (hp : p0 < p1) (h0 : p0 < x) :
    let r := namedPostObject logHook p0 p1 off
    ((rtbInv r (rtbFwd r neg x).1).1 = x ∧ (rtbFwd r neg x).2 * (rtbInv r (rtbFwd r neg x).1).2 = 1 ∧
      0 < (rtbFwd r neg x).2 ∧ 0 < (rtbInv r (rtbFwd r neg x).1).2) ∧
    ∃ d, HasDerivAt (fun t => (rtbFwd r neg t).1) d x ∧ |d| = (rtbFwd r neg x).2 :=
  let h := logRescaleObject_lawful p0 p1 x off neg hp h0
  ⟨⟨h.1.1.1, h.1.1.2, h.1.2.1, h.1.2.2⟩, h.2⟩

example := log_rescale_object_lawful 1 3 3 false false (by norm_num) (by norm_num)

/-- **chain rule**: for RescaleToBounds over ℝ with hooks differentiable where they are applied (derivative = their reported
factor), the forward map is differentiable and the reported factor is the absolute value of its derivative. -/
theorem rtb_jac_is_derivative_real (r : Rtb ℝ) (neg : Bool) (x : ℝ) (hb : r.b0 < r.b1)
    (hpre : HasDerivAt (fun t => (r.preF t).1) (r.preF x).2 x)
    (hpost : HasDerivAt (fun t => (r.postF t).1) (r.postF (rtbCore r neg (r.preF x).1).1).2
      (rtbCore r neg (r.preF x).1).1) :
    ∃ d, HasDerivAt (fun t => (rtbFwd r neg t).1) d x ∧ |d| = |(rtbFwd r neg x).2| :=
  rtbFwd_hasDerivAt r neg x hb hpre hpost

/-- applied: pre-rescaling `log` (a distance-like parameter on [1, 4] in log space), no post-rescaling, at x = 2 -/
example :=
  rtb_jac_is_derivative_real ⟨1, 4, -1, 1, none, false, some logHook, none, false, 0, 0, 2, .unset⟩ false 2 (by norm_num)
    (log_hasDerivAt 2 (by norm_num)) (hasDerivAt_id _)

/-- **Angle** (with or without a radial parameter, any non-zero `scale`): for `r > 0` and the scaled angle inside the branch
the inverse uses — `(−π, π]` without, `[0, 2π)` with the `% 2π` of a zero lower bound — the inverse returns angle and radius
and its log-Jacobian is minus the forward one. -/
theorem angle_roundtrip (s θ r : ℝ) (zb : Bool) (hs : s ≠ 0) (hr : 0 < r)
    (h1 : zb = false → -π < θ * s ∧ θ * s ≤ π) (h2 : zb = true → 0 ≤ θ * s ∧ θ * s < 2 * π) :
    angleInv s zb (angleFwd s θ r).1 (angleFwd s θ r).2.1 = (θ, r, -(angleFwd s θ r).2.2) :=
  angle_roundtrip_aux s θ r zb hs hr h1 h2

/-- applied: scale 2 (`angle-pi`), zero lower bound, θ = 1, r = 3 -/
example := angle_roundtrip 2 1 3 true (by norm_num) (by norm_num) (fun h => by cases h)
  (fun _ => by have := two_le_pi; constructor <;> nlinarith)

/-- the branch guard is needed: without the modulo, an angle beyond π comes back shifted by a full turn (this is the
configuration `FlowProposal.verify_rescaling` refuses at initialisation) -/
theorem angle_roundtrip_fails_without_branch :
    (angleInv 1 false (angleFwd 1 (3 * π / 2) 1).1 (angleFwd 1 (3 * π / 2) 1).2.1).1 ≠ 3 * π / 2 := by
  have hpi := pi_pos
  simp only [angleFwd, angleInv, Bool.false_eq_true, if_false, mul_one, one_mul, div_one]
  have h : arctan2 (sin (3 * π / 2)) (cos (3 * π / 2)) = 3 * π / 2 - 2 * π := by
    have := arctan2_polar 1 (3 * π / 2 - 2 * π) one_pos (by linarith) (by linarith)
    rwa [sin_sub_two_pi, cos_sub_two_pi, one_mul, one_mul] at this
  rw [h]; intro e; linarith

/-- **Angle: the reported log-Jacobian vs the true one.**  The model function `angleFwd` has the four partial derivatives
`a b c d` in (θ, r), and `log|det| = log_j + log|s|`: the reported `log r` differs from `log|det J|` by the constant `log|scale|`. -/
theorem angle_jacobian (s θ r : ℝ) (hs : s ≠ 0) (hr : 0 < r) :
    ∃ a b c d : ℝ,
      HasDerivAt (fun t => (angleFwd s t r).1) a θ ∧ HasDerivAt (fun ρ => (angleFwd s θ ρ).1) b r ∧
      HasDerivAt (fun t => (angleFwd s t r).2.1) c θ ∧ HasDerivAt (fun ρ => (angleFwd s θ ρ).2.1) d r ∧
      log |a * d - b * c| = (angleFwd s θ r).2.2 + log |s| :=
  angleFwd_jacobian s θ r hs hr

example := angle_jacobian 2 1 3 (by norm_num) (by norm_num)

/-- **ToCartesian** (modes split / duplicate / half = both sign bits): for `r > 0` every point of the closed prior interval —
both bounds included — comes back, with opposite log-Jacobians. -/
theorem toCartesian_roundtrip (p0 p1 x r : ℝ) (neg : Bool) (hp : p0 < p1) (hr : 0 < r) (h0 : p0 ≤ x) (h1 : x ≤ p1) :
    toCartInv p0 p1 (toCartFwd p0 p1 neg x r).1 (toCartFwd p0 p1 neg x r).2.1 = (x, r, -(toCartFwd p0 p1 neg x r).2.2) :=
  toCart_roundtrip_aux p0 p1 x r neg hp hr h0 h1

/-- applied at the upper bound with the sign bit set (the angle −π comes back as +π, the absolute value absorbs it) -/
example := toCartesian_roundtrip 2 5 5 1 true (by norm_num) (by norm_num) (by norm_num) (by norm_num)

/-- **ToCartesian: Jacobian.**  Partial derivatives of the model function `toCartFwd` in (x, r) and
`log|det| = log_j + log π`: the constant is the omitted `log scale` (`scale = π`). -/
theorem toCartesian_jacobian (p0 p1 x r : ℝ) (neg : Bool) (hp : p0 < p1) (hr : 0 < r) :
    ∃ a b c d : ℝ,
      HasDerivAt (fun t => (toCartFwd p0 p1 neg t r).1) a x ∧ HasDerivAt (fun ρ => (toCartFwd p0 p1 neg x ρ).1) b r ∧
      HasDerivAt (fun t => (toCartFwd p0 p1 neg t r).2.1) c x ∧ HasDerivAt (fun ρ => (toCartFwd p0 p1 neg x ρ).2.1) d r ∧
      log |a * d - b * c| = (toCartFwd p0 p1 neg x r).2.2 + log π :=
  toCartFwd_jacobian p0 p1 x r neg hp hr

example := toCartesian_jacobian 2 5 3 1 true (by norm_num) (by norm_num)

/-- **AnglePair**, both conventions, with or without the `% 2π`: off the poles and off the identified end point of the
horizontal angle, for `r > 0`, both angles and the radius come back and the log-Jacobians are negatives of each other. -/
theorem anglePair_roundtrip (α β r : ℝ) (m : Bool) (hr : 0 < r)
    (h1 : m = false → -π < α ∧ α ≤ π) (h2 : m = true → 0 ≤ α ∧ α < 2 * π) :
    (-(π / 2) < β → β < π / 2 →
      radecInv m (radecFwd α β r).1 (radecFwd α β r).2.1 (radecFwd α β r).2.2.1 = (α, β, r, -(radecFwd α β r).2.2.2)) ∧
    (0 < β → β < π →
      azzenInv m (azzenFwd α β r).1 (azzenFwd α β r).2.1 (azzenFwd α β r).2.2.1 = (α, β, r, -(azzenFwd α β r).2.2.2)) :=
  ⟨fun a b => radec_roundtrip_aux α β r m hr a b h1 h2, fun a b => azzen_roundtrip_aux α β r m hr a b h1 h2⟩

/-- applied: α = 0, β = 1/2 (inside both (−π/2, π/2) and (0, π)), r = 2, no modulo; both conventions -/
example :=
  let h := anglePair_roundtrip 0 (1 / 2) 2 false (by norm_num) (fun _ => ⟨by linarith [pi_pos], pi_pos.le⟩) (fun h => by cases h)
  (⟨h.1 (by linarith [pi_pos]) (by linarith [two_le_pi]), h.2 (by norm_num) (by linarith [two_le_pi])⟩ : _ ∧ _)

/-- **AnglePair: Jacobians.**  The model functions `radecFwd` / `azzenFwd` have the nine partial derivatives `a … i` in
(α, β, r), and `log|det|` of that 3×3 matrix *equals* the reported log-Jacobian (`2 log r + log cos β`, resp.
`2 log r + log sin β`) wherever it is defined: the allowed constant is zero. -/
theorem anglePair_jacobian (α β r : ℝ) (hr : 0 < r) :
    (0 < cos β → ∃ a b c d e f g h i : ℝ,
      HasDerivAt (fun t => (radecFwd t β r).1) a α ∧ HasDerivAt (fun t => (radecFwd α t r).1) b β ∧
      HasDerivAt (fun ρ => (radecFwd α β ρ).1) c r ∧
      HasDerivAt (fun t => (radecFwd t β r).2.1) d α ∧ HasDerivAt (fun t => (radecFwd α t r).2.1) e β ∧
      HasDerivAt (fun ρ => (radecFwd α β ρ).2.1) f r ∧
      HasDerivAt (fun t => (radecFwd t β r).2.2.1) g α ∧ HasDerivAt (fun t => (radecFwd α t r).2.2.1) h β ∧
      HasDerivAt (fun ρ => (radecFwd α β ρ).2.2.1) i r ∧
      log |det3 a b c d e f g h i| = (radecFwd α β r).2.2.2) ∧
    (0 < sin β → ∃ a b c d e f g h i : ℝ,
      HasDerivAt (fun t => (azzenFwd t β r).1) a α ∧ HasDerivAt (fun t => (azzenFwd α t r).1) b β ∧
      HasDerivAt (fun ρ => (azzenFwd α β ρ).1) c r ∧
      HasDerivAt (fun t => (azzenFwd t β r).2.1) d α ∧ HasDerivAt (fun t => (azzenFwd α t r).2.1) e β ∧
      HasDerivAt (fun ρ => (azzenFwd α β ρ).2.1) f r ∧
      HasDerivAt (fun t => (azzenFwd t β r).2.2.1) g α ∧ HasDerivAt (fun t => (azzenFwd α t r).2.2.1) h β ∧
      HasDerivAt (fun ρ => (azzenFwd α β ρ).2.2.1) i r ∧
      log |det3 a b c d e f g h i| = (azzenFwd α β r).2.2.2) :=
  ⟨fun hc => radecFwd_jacobian α β r hr hc, fun hs => azzenFwd_jacobian α β r hr hs⟩

/-- applied on the equator / at zenith angle π/2 … here β = 0 for ra-dec (cos 0 = 1 > 0) -/
example := (anglePair_jacobian 1 0 2 (by norm_num)).1 (by simp)

/-
NOT SHOWN (the property is therefore PARTIAL in Lean; these clauses are checked by the numeric oracle only):
* "prime prior = prior / J up to a constant" for the GW distance converters (the polar classes are covered in section
  `polarPrior` below: uniform / sine angle with a χ(2) radius, isotropic angles with a χ(3) radius);
* the GW distance converters (power law: oracle only; co-moving volume: lookup table, not covered at all),
  `DeltaPhaseReparameterisation` (oracle only);
* `detect_edge`'s histogram decision (the edge is an input of the model);
* every effect of float rounding (the theorems are about exact arithmetic; the tie allows 16 ulp).
-/

end Real

/-! ## The rescaling primitives of the source, regenerated on every run, ARE the model's -/
section source
variable {K : Type} [Field K] [LinearOrder K]

/-- `Gen/RescaleTx.lean` is produced by `harness/pylog2lean.py` from the current text of the four affine primitives of
`nessai/utils/rescaling.py` (value as written; the returned log-Jacobian `±log(xmax - xmin)`, `log 2 - log(…)` read as a
log-domain number, i.e. as the Jacobian factor).  They are the model's primitives, for every field and every argument —
so the round-trip, Jacobian and prior theorems above are about the source as it is now. -/
theorem rescale_primitives_source_eq_model (lg ex : K → K) (x xmin xmax : K) :
    Gen.RescaleTx.rescale_zero_to_one lg ex x xmin xmax = rescaleZeroToOne x xmin xmax ∧
    Gen.RescaleTx.inverse_rescale_zero_to_one lg ex x xmin xmax = inverseRescaleZeroToOne x xmin xmax ∧
    Gen.RescaleTx.rescale_minus_one_to_one lg ex x xmin xmax = rescaleMinusOneToOne x xmin xmax ∧
    Gen.RescaleTx.inverse_rescale_minus_one_to_one lg ex x xmin xmax = inverseRescaleMinusOneToOne x xmin xmax := by
  have h2 : ((2 : Nat) : K) = 1 + 1 := by norm_num
  refine ⟨rfl, rfl, ?_, ?_⟩ <;>
    simp only [Gen.RescaleTx.rescale_minus_one_to_one, Gen.RescaleTx.inverse_rescale_minus_one_to_one,
      rescaleMinusOneToOne, inverseRescaleMinusOneToOne, two, h2]

example : Gen.RescaleTx.rescale_minus_one_to_one (fun x => x) (fun x => x) (3 : ℚ) 1 5 = (0, 1 / 2) := by
  norm_num [Gen.RescaleTx.rescale_minus_one_to_one]

/-- `determine_rescaled_bounds` (the prime-prior bounds of `RescaleToBounds`: every branch on `inversion` and on the edge,
the offset, the rescale bounds, both `ValueError`s), generated from the current source in continuation style, is the model's
`determineRescaledBounds` for every argument (ordered field: the literals `-0.5`, `1.5`, `2` need characteristic 0). -/
theorem determine_rescaled_bounds_source_eq_model [IsStrictOrderedRing K] (pmin pmax xmin xmax : K) (invert : Edge)
    (inversion : Bool) (offset r0 r1 : K) :
    Gen.RescaleTx.determine_rescaled_bounds pmin pmax xmin xmax invert inversion offset r0 r1 =
      determineRescaledBounds pmin pmax xmin xmax invert inversion offset r0 r1 := by
  unfold Gen.RescaleTx.determine_rescaled_bounds determineRescaledBounds
  by_cases hx : xmin = xmax
  · simp [hx]
  · cases inversion <;> cases invert <;> simp [hx, two] <;> norm_num

example : Gen.RescaleTx.determine_rescaled_bounds (1 : ℚ) 3 1 3 Edge.upper true 0 (-1) 1 = some (-1, 1) := by
  norm_num [Gen.RescaleTx.determine_rescaled_bounds]

end source

/-! ## Prime priors of the polar reparameterisations (source-generated definitions, over ℝ)

`Angle` / `ToCartesian` map an angle `θ` (uniform on a range of length `k`, or sine-distributed on `[0, π]`) and an auxiliary
radius `r ~ χ(2)` to `(x, y) = (r cos θ, r sin θ)` with Jacobian `r`; `AnglePair` maps two isotropic angles and `r ~ χ(3)` to
Cartesian coordinates with Jacobian `r² cos β` (ra-dec).  The prime-space priors the code offers are
`log_2d_cartesian_prior`, `log_2d_cartesian_prior_sine` and `log_3d_cartesian_prior` (`nessai/priors.py`); the first and the
last are GENERATED from the source (`Gen/RescaleTx.lean`).  The theorems say: prime prior = original prior − log|Jacobian|,
exactly (the allowed constant is zero), wherever the map is regular. -/
section polarPrior
open Real

/-- `scipy.stats.chi(2).logpdf(r)` and `chi(3).logpdf(r)` for `r > 0` -/
noncomputable def chi2LogPdf (r : ℝ) : ℝ := log r - r ^ 2 / 2
noncomputable def chi3LogPdf (r : ℝ) : ℝ := (1 / 2) * log (2 / π) + 2 * log r - r ^ 2 / 2

/-- uniform angle on a range of length `k`, radius χ(2): the generated `log_2d_cartesian_prior` at `(r cos θ, r sin θ)` is
`−log k + χ₂.logpdf(r) − log r` -/
theorem cartesian2d_prime_prior (θ r k : ℝ) (hr : 0 < r) :
    Gen.RescaleTx.log_2d_cartesian_prior Real.log Real.exp π (r * cos θ) (r * sin θ) k =
      (-log k) + chi2LogPdf r - log r := by
  have h : (r * cos θ) * (r * cos θ) + (r * sin θ) * (r * sin θ) = r ^ 2 := by
    have := cos_sq_add_sin_sq θ
    nlinarith [this]
  simp only [Gen.RescaleTx.log_2d_cartesian_prior, chi2LogPdf, h]
  push_cast
  ring

/-- the sine prior (`nessai/priors.py: log_2d_cartesian_prior_sine`, for `y ≥ 0`; written out: this function clamps
negative `y` in place and is not in the translator's fragment): `log(y/2) − ½ log(x²+y²) − (x²+y²)/2` at
`(r cos θ, r sin θ)` is `log(sin θ / 2) + χ₂.logpdf(r) − log r` -/
theorem cartesian2d_sine_prime_prior (θ r : ℝ) (hr : 0 < r) (hs : 0 < sin θ) :
    log ((r * sin θ) / 2) - (1 / 2) * log ((r * cos θ) ^ 2 + (r * sin θ) ^ 2) - ((r * cos θ) ^ 2 + (r * sin θ) ^ 2) / 2 =
      log (sin θ / 2) + chi2LogPdf r - log r := by
  have h : (r * cos θ) ^ 2 + (r * sin θ) ^ 2 = r ^ 2 := by
    have := cos_sq_add_sin_sq θ
    nlinarith [this]
  have h1 : log ((r * sin θ) / 2) = log r + log (sin θ / 2) := by
    rw [mul_div_assoc, log_mul hr.ne' (by positivity)]
  have h2 : log (r ^ 2) = 2 * log r := by
    rw [log_pow]; norm_num
  rw [h, h1, h2, chi2LogPdf]
  ring

/-- isotropic angles (ra-dec: density `cos β / (4π)`), radius χ(3), Jacobian `r² cos β`: the generated
`log_3d_cartesian_prior` depends on the radius only and equals `log(cos β / (4π)) + χ₃.logpdf(r) − log(r² cos β)` -/
theorem cartesian3d_prime_prior (x y z r β : ℝ) (hr : 0 < r) (hc : 0 < cos β) (hxyz : x * x + y * y + z * z = r ^ 2) :
    Gen.RescaleTx.log_3d_cartesian_prior Real.log Real.exp π x y z =
      log (cos β / (4 * π)) + chi3LogPdf r - log (r ^ 2 * cos β) := by
  have hpi := pi_pos
  simp only [Gen.RescaleTx.log_3d_cartesian_prior, chi3LogPdf, hxyz]
  rw [log_div hc.ne' (by positivity), log_mul (by positivity) hc.ne', log_pow, log_mul (by norm_num) hpi.ne',
    log_div (by norm_num) hpi.ne']
  push_cast
  have h4 : log 4 = 2 * log 2 := by
    rw [show (4 : ℝ) = 2 ^ 2 by norm_num, log_pow]; norm_num
  rw [log_mul (by norm_num) hpi.ne', h4]
  ring

example := cartesian2d_prime_prior 1 2 π (by norm_num)

end polarPrior

end NessaiVerif.C07
