"""C20 — every algorithmic option runs to completion or is rejected up front (PARTIAL)."""
import importlib
import inspect
import math
import os
import shutil
import tempfile
import time

os.environ.setdefault("TQDM_DISABLE", "1")

import numpy as np

from . import core
from . import c20_loops as L
from . import c20_sweep as S
from . import c20_tables as T

PROPS_MODULE = "NessaiVerif.Props.C20"
MANIFEST = dict(
    text="PARTIAL. (1) Lean theorems over models of the loops a run depends on - FlowProposal.populate (both branches, with the IEEE "
         "NaN/inf semantics of the weights), ImportanceFlowProposal.draw, FlowModel.check_batch_size, the batch-size halving and the "
         "redraw loop of draw_final_samples, populate_live_points of both samplers: for each an exact termination criterion over "
         "arbitrary batch streams (the loop has ended iff the stream accepts enough points; a batch that is not Good - empty, one NaN "
         "weight, +-inf maximum - accepts nothing), bounds where a guard exists (max_samples / max_its), post-conditions, and for each "
         "loop without a guard the proof that it is still spinning after any number of batches when no batch can accept. "
         "The models are tied to the real methods by an exact scripted-stream correspondence. "
         "(2) Interface tables of the post-sampling paths (the ~120 methods reachable from FlowSampler.run_*, finalise, "
         "draw_final_samples, ...) are regenerated from the nessai sources on every run (call-site keywords/arity vs callee signatures, "
         "attribute reads vs attributes defined in the class hierarchy) and proved by evaluation to conform except an explicit list of "
         "known defects, which is proved to be exactly the set of violations; the table is cross-checked against inspect.signature and "
         "finished real objects, and every listed defect an option reaches is replayed by a real run. "
         "(3) A table of the raise statements guarded by an option (generated; 'upfront' = reachable from the constructors / before the "
         "live points are drawn, 'late' = only once sampling has started) with the theorem that the options tested late are exactly a "
         "listed set; each genuinely late validation is replayed. "
         "(4) NOT proved: (a) the property's first half as such - that every unacceptable configuration is rejected BEFORE sampling "
         "starts: the table only locates explicit raise statements, rejection up front is checked by the sweep (invalid-choice runs) "
         "only; (b) that complete runs terminate and return valid results for every option value (pair). Both are a bounded option "
         "sweep on the real samplers (each value on its own; fixed pairwise covering arrays in the thorough tier) with a per-population "
         "draw budget, progress tracking and a wall-clock bound - evidence and failing-input search only.",
    note="Loop theorems are about the models; flows, likelihoods and RNG enter as batch streams. Table resolution is static (callees "
         "resolved by unique name inside the package, a few declared attribute types); calls it cannot resolve are not checked. The "
         "sweep uses tiny settings on a 2-parameter model (importance sampler with exactly-known substitute flows, plus a few runs with "
         "neural flows in the thorough tier); a population that no batch of which can accept anything is keyed by that cause when it "
         "appears in a row of the pairwise array.",
    technique="Lean 4 proofs (induction over batch streams; evaluation of generated tables) + scripted-stream correspondence + "
              "ast translator + bounded option sweep",
    ref="5/C20")

GEN_PATH = core.LEAN / "NessaiVerif" / "Gen" / "Term.lean"
_STATE = {}


# ------------------------------------------------------------------------------------------------
# translator
# ------------------------------------------------------------------------------------------------
def gen(ctx):
    try:
        tabs = T.Tables(core.REPO)
        val = T.Validation(tabs.ix)
        text = tabs.lean(val)
    except T.Untranslatable as e:
        ctx.broken("translator: post-sampling interface tables could not be generated", str(e))
        return
    except Exception as e:  # noqa
        ctx.broken("translator: crashed on the current sources", repr(e))
        return
    _STATE["tables"] = tabs
    _STATE["validation"] = val
    if not GEN_PATH.exists() or GEN_PATH.read_text() != text:
        GEN_PATH.write_text(text)
    ctx.trust("translator harness/c20_tables.py (ast: class index, call-site/attribute extraction, declared attribute types)")


# ------------------------------------------------------------------------------------------------
# loop models <-> real loops
# ------------------------------------------------------------------------------------------------
def _good_batch(items, m):
    kept = [(i, q, w) for i, q, w in items if m is None or _ef_gt(q, m)]
    if not kept:
        return False, False
    ws = [w for _, _, w in kept]
    finite_max = all(w != "nan" for w in ws) and "inf" not in ws and any(w not in L.EF_TOKENS for w in ws)
    return True, finite_max


def _ef_gt(a, b):
    fa, fb = L.ef_float(a), L.ef_float(b)
    return fa > fb


def _corpus():
    import json
    p = core.VERIF / "corpus" / "C20" / "cases.json"
    return json.loads(p.read_text()) if p.exists() else {}


def _pop_case(c):
    return dict(N=c["N"], m=c["m"], acc=c["acc"], maxS=c["maxS"], us=c["us"],
                batches=[(d, [tuple(it) for it in items]) for d, items in c["batches"]])


def _ins_case(c):
    return dict(n=c["n"], variant=c["variant"], batches=[[tuple(p) for p in b] for b in c["batches"]])


def loops_tie(ctx):
    n = ctx.scale(250, 4000)
    tmp = tempfile.mkdtemp(prefix="c20_")
    try:
        _loops(ctx, n, tmp)
    finally:
        shutil.rmtree(tmp, ignore_errors=True)
        from nessai import config
        config.livepoints.reset()


def _case_populate(ctx, c, mo, tmp):
    impl, fp = L.run_populate(c, tmp)
    site = "FlowProposal.populate"
    if c["acc"]:
        tie = mo.endswith("tie=1")
        mo = mo.rsplit(" tie=", 1)[0]
        if tie:
            ctx.case(("pop-tie", L.populate_line(c)), False, kind="populate:tie-dropped")
            return impl, mo
    if impl != mo:
        ctx.disagree("FlowProposal.populate: model != real loop", {"kind": "populate", "case": c, "line": L.populate_line(c), "model": mo, "impl": impl})
    flags = [_good_batch(items, c["m"]) for _, items in c["batches"]]
    if not c["acc"]:
        # theorem populate_terminates_partial on the real loop
        if len(flags) >= c["N"] and all(ne and fm for ne, fm in flags[: c["N"]]):
            ok = impl.startswith("done") and int(impl.split("used=")[1].split()[0]) <= c["N"] and len(fp.x) == c["N"]
            if not ok:
                ctx.oracle_fail(site + ":terminates", f"every batch accepts a point, yet after N={c['N']} batches: {impl}", {"kind": "populate", "case": c})
    else:
        if len(flags) >= c["maxS"] + 1 and all(ne and d >= 1 for (ne, _), (d, _) in zip(flags, c["batches"])):
            ok = impl.startswith("done") and int(impl.split("used=")[1].split()[0]) <= c["maxS"] + 1
            if not ok:
                ctx.oracle_fail(site + ":max_samples", f"max_samples={c['maxS']} did not end the loop: {impl}", {"kind": "populate", "case": c})
    if impl.startswith("done") and (len(fp.x) > c["N"] or len(fp.indices) != len(fp.samples) or not fp.populated):
        ctx.oracle_fail(site + ":pool", f"inconsistent pool after population: {len(fp.x)} points, {len(fp.indices)} indices", {"kind": "populate", "case": c})
    ctx.case(("pop", L.populate_line(c)), len(c["batches"]) > 0,
             {"line": L.populate_line(c)[:300], "real": impl}, kind=("populate-acc:" if c["acc"] else "populate-std:") + impl.split()[0])
    return impl, mo


def _case_insdraw(ctx, c, mo, tmp):
    impl, samples = L.run_insdraw(c, tmp)
    if impl != mo:
        ctx.disagree("ImportanceFlowProposal.draw: model != real loop", {"kind": "insdraw", "case": c, "model": mo, "impl": impl})
    has_ok = [any(k == 0 for _, k in b) for b in c["batches"]]
    if len(has_ok) >= c["n"] and all(has_ok[: c["n"]]):
        ok = impl.startswith("done") and int(impl.split("used=")[1].split()[0]) <= c["n"] and len(samples) == c["n"]
        if not ok:
            ctx.oracle_fail("ImportanceFlowProposal.draw:terminates", f"every batch has an acceptable point, yet: {impl}", {"kind": "insdraw", "case": c})
    ctx.case(("insdraw", L.insdraw_line(c)), len(c["batches"]) > 0, {"line": L.insdraw_line(c)[:200], "real": impl}, kind="ins-draw:" + impl.split()[0])
    return impl, mo


def _case_final(ctx, rig, c, out_h, out_d):
    impl, samples = rig.run(c)
    mo = L.final_model_canon(out_h, out_d)
    if impl != mo:
        ctx.disagree("draw_final_samples: model != real loop", {"kind": "final", "case": c, "model": mo, "impl": impl})
    if " it=" in impl and int(impl.split(" it=")[1].split()[0]) > max(c["max_its"], 0):
        ctx.oracle_fail("ImportanceNestedSampler.draw_final_samples:max_its", f"more than max_its={c['max_its']} iterations: {impl}", {"kind": "final", "case": c})
    ctx.case(("final", repr(c)), True, {"case": {k2: v for k2, v in c.items() if k2 not in ("ks", "es")}, "real": impl},
             kind="draw_final:" + (impl.split("exit=")[1].split()[0] if "exit=" in impl else impl.split(":")[0]))
    return impl, mo


def _case_nslive(ctx, c, mo, tmp):
    impl, live = L.run_nslive(c, tmp)
    if mo.startswith("done"):
        ids = sorted(int(t) for t in mo.split("ids=[")[1].split("]")[0].split(",") if t)
        mo = f"done ids=[{','.join(map(str, ids))}] draws=" + mo.split("draws=")[1]
    if impl != mo:
        ctx.disagree("NestedSampler.populate_live_points: model != real loop", {"kind": "nslive", "case": c, "model": mo, "impl": impl})

    def finite(t):
        return t not in L.EF_TOKENS

    stored = sum(1 for (_, p, l0, el, _) in c["cands"] if finite(p) and finite(el if l0 == "0" else l0))
    if stored >= c["nlive"] and not (impl.startswith("done") and len(live) == c["nlive"]):
        ctx.oracle_fail("NestedSampler.populate_live_points:terminates", f"{stored} finite candidates for nlive={c['nlive']}, yet: {impl}", {"kind": "nslive", "case": c})
    if live is not None and not (np.isfinite(live["logL"]).all() and np.isfinite(live["logP"]).all()):
        ctx.oracle_fail("NestedSampler.populate_live_points:finite", "a live point with a non-finite log-likelihood or log-prior was stored",
                        {"kind": "nslive", "case": c})
    ctx.case(("nslive", L.nslive_line(c)), len(c["cands"]) > 0, {"line": L.nslive_line(c)[:200], "real": impl}, kind="ns-live:" + impl.split()[0])
    return impl, mo


def _case_inslive(ctx, c, mo, tmp):
    impl, s = L.run_inslive(c, tmp)
    mo = L.inslive_model_canon(mo, c)
    if impl != mo:
        ctx.disagree("ImportanceNestedSampler.populate_live_points: model != real loop", {"kind": "inslive", "case": c, "model": mo, "impl": impl})
    fin = [any(f for _, f in b) for b in c["batches"]]
    if len(fin) >= c["target"] and all(fin[: c["target"]]) and not impl.startswith("done"):
        ctx.oracle_fail("ImportanceNestedSampler.populate_live_points:terminates", f"every batch has a finite-prior point, yet: {impl}", {"kind": "inslive", "case": c})
    ctx.case(("inslive", L.inslive_line(c)), len(c["batches"]) > 0, {"line": L.inslive_line(c)[:200], "real": impl}, kind="ins-live:" + impl.split()[0])
    return impl, mo


def _case_cbs(ctx, ln, b, num, den, fr, sample=False):
    canon = L.run_cbs(ln, b, fr if (num, den) != (1, 10) else None)
    case = {"kind": "cbs", "len": ln, "b": b, "frac": [num, den]}
    if (num, den) == (1, 10) or num * 10 <= den:
        L.oracle_cbs(ctx, ln, b, canon, case)
    ctx.case(("cbs", ln, b, num, den), b >= 2, case if sample else None, kind="check_batch_size:" + canon.split()[0])
    return f"term cbs {ln} {b} {num} {den}", canon, case


def _final_tie(ctx, rig, n):
    rng = ctx.rng
    if rig.supplied_attr:
        ctx.assume("draw_final_samples reads proposal.unnormalised_weights, which is defined nowhere (a listed defect): the loop "
                   "correspondence supplies it on the instance to reach the loop")
    cases = [L.gen_final(rng, rig, i % 3 == 0) for i in range(n)]
    lines = []
    for c in cases:
        lines += list(L.final_lines(c))
    outs = ctx.model(lines)
    for k, c in enumerate(cases):
        _case_final(ctx, rig, c, outs[2 * k], outs[2 * k + 1])


def _loops(ctx, n, tmp):
    rng = ctx.rng
    from nessai.samplers.importancesampler import ImportanceNestedSampler
    # ---- FlowProposal.populate
    corpus = _corpus()
    cases = [_pop_case(c) for c in corpus.get("populate", [])] + [L.gen_populate(rng, i % 3 == 0) for i in range(n)]
    for c, mo in zip(cases, ctx.model([L.populate_line(c) for c in cases])):
        _case_populate(ctx, c, mo, tmp)
    # ---- ImportanceFlowProposal.draw
    ImportanceNestedSampler.add_fields()
    cases = [_ins_case(c) for c in corpus.get("insdraw", [])] + [L.gen_insdraw(rng, i % 3 == 0) for i in range(n)]
    for c, mo in zip(cases, ctx.model([L.insdraw_line(c) for c in cases])):
        _case_insdraw(ctx, c, mo, tmp)
    # int(1.01 n) / int(1.05 n) are the integer floors the model uses
    top = ctx.scale(20000, 400000)
    bad = [k for k in range(top) if int(1.01 * k) != 101 * k // 100 or int(1.05 * k) != 105 * k // 100]
    if bad:
        ctx.disagree("int(1.01*n) / int(1.05*n) differ from the model's integer floors", {"kind": "floors", "n": bad[:5]})
    ctx.case(("floors", top), True, kind="float-floor-check")
    # ---- check_batch_size
    lines, impls, cs = [], [], []
    top_len, top_b = ctx.scale(70, 400), ctx.scale(45, 260)
    for ln in range(0, top_len):
        for b in range(-4, top_b):
            for num, den, fr in (L.FRACTIONS if ln % 3 == 0 else L.FRACTIONS[:1]):
                line, canon, case = _case_cbs(ctx, ln, b, num, den, fr, sample=(ln, b) == (57, 20))
                lines.append(line), impls.append(canon), cs.append(case)
    for _ in range(ctx.scale(300, 5000)):
        line, canon, case = _case_cbs(ctx, rng.randint(0, 5000), rng.randint(2, 2000), 1, 10, None)
        lines.append(line), impls.append(canon), cs.append(case)
    ctx.diff_model(lines, impls, cs, what="FlowModel.check_batch_size: model != real function")
    # ---- draw_final_samples (batch size + redraw loop) on a finished sampler
    try:
        rig = L.FinalRig()
    except Exception as e:  # noqa: a plain importance-sampler run raised; the sweep reports it with its input
        import traceback
        rig = None
        ctx.disagree("a plain run of the importance sampler (substitute flows) raised; the draw_final_samples correspondence was skipped",
                     {"kind": "rig", "exception": repr(e)[:300], "where": traceback.format_exc()[-500:]})
    _STATE["rig"] = rig
    if rig is not None:
        _final_tie(ctx, rig, n)
    # ---- NestedSampler.populate_live_points
    cases = [L.gen_nslive(rng, i % 3 == 0) for i in range(n)]
    for c, mo in zip(cases, ctx.model([L.nslive_line(c) for c in cases])):
        _case_nslive(ctx, c, mo, tmp)
    # ---- ImportanceNestedSampler.populate_live_points
    cases = [L.gen_inslive(rng, i % 3 == 0) for i in range(n)]
    for c, mo in zip(cases, ctx.model([L.inslive_line(c) for c in cases])):
        _case_inslive(ctx, c, mo, tmp)


# ------------------------------------------------------------------------------------------------
# tables <-> reality
# ------------------------------------------------------------------------------------------------
def _runtime_signature(tabs, callee):
    """(pos, kwonly, required, varargs, varkw) of the real object named by a table row, or None"""
    if "." in callee:
        cname, mname = callee.split(".", 1)
    else:
        cname, mname = callee, None
    c = tabs.ix.cls(cname)
    if c is not None:
        mod = importlib.import_module(c.module[:-3].replace("/", "."))
        cls = getattr(mod, cname)
        if mname is None:
            if "__init__" not in {k for k2 in cls.__mro__ if k2 is not object for k in vars(k2)}:
                return [], [], [], False, False
            fn, bound = cls.__init__, True
        else:
            raw = inspect.getattr_static(cls, mname)
            if isinstance(raw, staticmethod):
                fn, bound = raw.__func__, False
            elif isinstance(raw, classmethod):
                fn, bound = raw.__func__, True
            else:
                fn, bound = raw, True
    else:
        f = tabs.ix.func(callee)
        if f is None:
            return None
        mod = importlib.import_module(f.module[:-3].replace("/", "."))
        fn, bound = getattr(mod, callee), False
    fn = inspect.unwrap(fn)
    sig = inspect.signature(fn)
    ps = list(sig.parameters.values())
    if bound and ps:
        ps = ps[1:]
    pos = [p.name for p in ps if p.kind in (p.POSITIONAL_ONLY, p.POSITIONAL_OR_KEYWORD)]
    kwonly = [p.name for p in ps if p.kind == p.KEYWORD_ONLY]
    req = [p.name for p in ps if p.default is p.empty and p.kind in (p.POSITIONAL_ONLY, p.POSITIONAL_OR_KEYWORD, p.KEYWORD_ONLY)]
    return pos, kwonly, req, any(p.kind == p.VAR_POSITIONAL for p in ps), any(p.kind == p.VAR_KEYWORD for p in ps)


def tables_tie(ctx):
    tabs = _STATE.get("tables")
    if tabs is None:
        return
    kv, av = tabs.violations()
    out = ctx.model(["term viol kwargs", "term viol attrs"])

    def fmt(vs):
        return "[" + ",".join("|".join(v) for v in vs) + "]"

    if out[0] != fmt(kv) or out[1] != fmt(av):
        ctx.disagree("violations computed by the Lean model differ from the translator's own computation",
                     {"kind": "tables", "model": out, "python": [fmt(kv), fmt(av)]})
    val = _STATE.get("validation")
    if val is not None:
        late = ctx.model(["term viol late"])[0]
        if late != "[" + ",".join(val.late_options()) + "]":
            ctx.disagree("late-validated options computed by the Lean model differ from the translator's own computation",
                         {"kind": "tables", "model": late, "python": val.late_options()})
        ctx.extra["validation_sites"] = {"upfront": sum(1 for r in val.rows if r[0] == "upfront"), "late": sum(1 for r in val.rows if r[0] == "late"),
                                         "late_options": val.late_options(), "options_known": len(val.options),
                                         "rows": [list(r[:3]) + [list(r[3])] for r in val.rows]}
        ctx.case(("validation-table", len(val.rows)), True, kind="table:validation-sites")
    ctx.extra["tables"] = {"methods": len(tabs.scope), "call_sites": len(tabs.call_sites), "attr_reads": len(tabs.attr_reads),
                           "unresolved_calls": tabs.unresolved_calls, "kw_violations": [list(v) for v in kv], "attr_violations": [list(v) for v in av]}
    # (a) static signatures == the signatures of the objects Python actually imports
    seen = set()
    for row in tabs.call_sites:
        callee = row[1]
        if callee in seen:
            continue
        seen.add(callee)
        try:
            rt = _runtime_signature(tabs, callee)
        except Exception as e:  # noqa
            ctx.disagree("a callee of the table cannot be resolved at run time", {"kind": "tables", "callee": callee, "error": repr(e)})
            continue
        st = (list(row[5]), list(row[6]), list(row[7]), row[8], row[9])
        if rt is not None and (rt[0], rt[1], sorted(rt[2]), rt[3], rt[4]) != (st[0], st[1], sorted(st[2]), st[3], st[4]):
            ctx.disagree("static signature differs from inspect.signature of the real callee",
                         {"kind": "tables", "callee": callee, "static": st, "runtime": rt})
        ctx.case(("sig", callee), True, {"callee": callee, "signature": st} if len(seen) < 3 else None, kind="table:signature")
    # (b) attribute table vs finished real objects: a read reported as undefined must really be absent
    rig = _STATE.get("rig")
    objs = {}
    if rig is not None:
        s = rig.s
        objs = {"ImportanceNestedSampler": s, "ImportanceFlowProposal": s.proposal, "_INSIntegralState": s.state,
                "OrderedSamples": s.training_samples}
    dtab = dict(tabs.defined_table())
    for caller, cls, attr in tabs.attr_reads:
        o = objs.get(cls)
        if o is None:
            continue
        static_defined = attr in dtab.get(cls, [])
        runtime = attr in vars(o) or hasattr(type(o), attr)
        if rig.supplied_attr and cls == "ImportanceFlowProposal" and attr == "unnormalised_weights":
            runtime = False      # supplied by the harness for the loop correspondence
        if not static_defined and runtime:
            ctx.disagree("attribute reported undefined by the table exists on the finished real object",
                         {"kind": "tables", "read": [caller, cls, attr]})
        ctx.case(("attr", caller, cls, attr), True, None,
                 kind="table:attr-" + ("defined" if static_defined and runtime else "undefined" if not static_defined else "defined-statically-only"))


# ------------------------------------------------------------------------------------------------
# option sweep
# ------------------------------------------------------------------------------------------------
def _report(ctx, sampler, labels, cfg, seed, res, root_cause=False):
    case = {"kind": "sweep", "sampler": sampler, "labels": labels, "cfg": cfg, "seed": seed, "root_cause": root_cause,
            "result": {k: res.get(k) for k in ("status", "phase", "exc", "msg", "where", "counts", "wall")}}
    kind = f"sweep-{sampler}:{res['status']}" + (f":{res['exc']}" if res["exc"] else "")
    ctx.case(("sweep", sampler, tuple(labels), seed), True,
             {"sampler": sampler, "options": labels, "status": res["status"], "phase": res["phase"], "exc": res["exc"],
              "wall": res["wall"], "draws": res["counts"]}, kind=kind)
    if res["status"] in ("failed", "hang"):
        what = (f"{'importance' if sampler == 'ins' else 'standard'} sampler with {labels or ['base configuration']}: "
                + (f"{res['exc']} in phase '{res['phase']}' ({res['msg'][:160]}) at {res['where'][-2:]}" if res["status"] == "failed"
                   else f"did not terminate: {res['msg']} (phase '{res['phase']}', draws {res['counts']})"))
        ctx.oracle_fail(S.finding_key(sampler, labels, res, root_cause=root_cause), what, case)
    ctx.traces += 1
    return res


def _signature(res):
    return (res["status"], res["exc"] if res["status"] == "failed" else "hang", (res["where"][-1].split(":")[0] if res["where"] else ""))


def _run(ctx, sampler, labels, specs, seed, minimise=False, root_cause=False, **kw):
    base = S.INS_BASE if sampler == "ins" else S.STD_BASE
    cfg = S.build(base, specs)
    wall = ctx.scale(30, 90)
    res = S.run_one(sampler, cfg, seed, wall=wall, **kw)
    if minimise and res["status"] in ("failed", "hang") and len(labels) > 1:
        # reduce the failing row to a minimal set of option values with the same failure (one-at-a-time removal)
        sig = _signature(res)
        keep = list(range(len(labels)))
        for i in range(len(labels)):
            trial = [j for j in keep if j != i]
            r2 = S.run_one(sampler, S.build(base, [specs[j] for j in trial]), seed, wall=wall, **kw)
            if r2["status"] in ("failed", "hang") and _signature(r2) == sig:
                keep, res = trial, r2
        ctx.hist["sweep:rows-minimised"] += 1
        labels, specs = [labels[j] for j in keep], [specs[j] for j in keep]
        cfg = S.build(base, specs)
    return _report(ctx, sampler, labels, cfg, seed, res, root_cause=minimise or root_cause)


def sweep(ctx, full=False):
    seed0 = 1 + 1000 * ctx.seed
    t0 = time.time()
    full = full or not ctx.quick
    # known findings first: each is replayed by one tiny real run
    for name, lab, spec in S.all_singles(S.STD_KNOWN):
        _run(ctx, "std", [f"{name}:{lab}"], [spec], seed0)
    for name, lab, spec in S.all_singles(S.INS_KNOWN):
        _run(ctx, "ins", [f"{name}:{lab}"], [spec], seed0)
    for smp, labels, spec, seed, root in S.SEEDED_KNOWN:
        _run(ctx, smp, labels, [spec], seed, root_cause=root)
    base_ok = {smp: _run(ctx, smp, [], [], seed0)["status"] in ("ok", "slow") for smp in ("std", "ins")}
    if not all(base_ok.values()):
        # the base configuration itself fails: every single-option run would report the same failure
        ctx.extra["sweep_skipped"] = [k for k, v in base_ok.items() if not v]
    std = S.all_singles(S.STD_OPTIONS) if base_ok["std"] else []
    if not full:
        std = [(n, l, s) for n, l, s in std if f"{n}:{l}" in S.STD_QUICK]
    for name, lab, spec in std:
        _run(ctx, "std", [f"{name}:{lab}"], [spec], seed0)
    for name, lab, spec in S.all_singles(S.STD_INVALID):
        _run(ctx, "std", [f"{name}:{lab}"], [spec], seed0)
    if base_ok["std"]:
        for labels, spec in S.STD_QUICK_PAIRS:
            _run(ctx, "std", labels, [spec], seed0)
    for name, lab, spec in (S.all_singles(S.INS_OPTIONS) if base_ok["ins"] else []) + S.all_singles(S.INS_INVALID):
        _run(ctx, "ins", [f"{name}:{lab}"], [spec], seed0)
    if base_ok["ins"]:
        for name, lab, spec in S.all_singles(S.INS_REAL_OPTIONS):
            _run(ctx, "ins", [f"{name}:{lab}", "real-flows"], [S.REAL_FLOW_TRAINING, spec, dict(init=dict(max_iteration=2))], seed0, fake_flows=False)
    if full:
        # second seed for the singles; pairwise arrays; a few importance-sampler runs with real neural flows
        for name, lab, spec in std:
            _run(ctx, "std", [f"{name}:{lab}"], [spec], seed0 + 1)
        for sampler, options in (("std", S.STD_OPTIONS), ("ins", S.INS_OPTIONS)):
            if not base_ok[sampler]:
                continue
            # the array and the seeds of its rows are fixed (independent of VERIF_SEED): it is a regression suite whose known
            # failures can be listed; VERIF_SEED varies the scripted streams and the single-option runs
            import random
            rows = S.covering_array(options, random.Random("C20-pairwise-" + sampler), exclude=S.PAIR_EXCLUDE if sampler == "ins" else ())
            cap = 140 if sampler == "std" else 60
            ctx.extra[f"pairwise_{sampler}"] = {"rows_needed_for_full_pair_coverage": len(rows), "rows_run": min(cap, len(rows))}
            for i, row in enumerate(rows[:cap]):
                labels, specs = S.row_specs(options, row)
                _run(ctx, sampler, labels, specs, 5000 + i, minimise=True)
        for name in ("weighted_kl", "reset_flow", "reparameterisation", "clip", "strict_threshold", "draw_iid_live"):
            lab, spec = S.INS_OPTIONS[name][0]
            _run(ctx, "ins", [f"{name}:{lab}", "real-flows"], [S.REAL_FLOW_TRAINING, spec, dict(init=dict(max_iteration=2))], seed0, fake_flows=False)
    ctx.extra["sweep_wall_s"] = round(time.time() - t0, 1)


def extra_findings(ctx):
    """defects the table reports that no option value of the sweep reaches"""
    rig = _STATE.get("rig")
    if rig is None:
        return
    try:
        rig.s.plot_extra_state()
    except AttributeError as e:
        if "checkpoint_iterations" in str(e):
            ctx.oracle_fail("ImportanceNestedSampler.plot_extra_state:checkpoint_iterations-undefined-attribute",
                            "plot_extra_state=True: plot_extra_state() reads self.checkpoint_iterations, which is defined nowhere "
                            f"(the list lives in self.history): {e}", {"kind": "plot_extra_state"})
        else:
            ctx.oracle_fail("ImportanceNestedSampler.plot_extra_state:AttributeError", str(e), {"kind": "plot_extra_state"})
    except Exception:  # noqa  (plotting problems are not this property's business)
        pass
    finally:
        try:
            import matplotlib.pyplot as plt
            plt.close("all")
        except Exception:  # noqa
            pass
    ctx.case(("plot_extra_state",), True, kind="post-sampling-method:plot_extra_state")
    # public post-sampling methods that no option reaches: outcome recorded as evidence only (not this property's domain)
    side = {}
    from harness.c03 import FakeFlows
    for name, kw in (("draw_more_nested_samples", dict(n=10)), ("add_level_post_sampling", dict(samples=rig.s.samples_unit, n=10))):
        try:
            with FakeFlows(2, False, None):
                getattr(rig.s, name)(**kw)
            side[name] = "ok"
        except Exception as e:  # noqa
            side[name] = f"{type(e).__name__}: {str(e)[:120]}"
        ctx.case(("post-method", name), True, kind="post-sampling-method:" + name + ":" + side[name].split(":")[0])
    ctx.extra["public_methods_not_reached_by_any_option"] = side


# ------------------------------------------------------------------------------------------------
def correspond(ctx):
    import logging
    import torch
    torch.set_num_threads(1)
    logging.disable(logging.CRITICAL)
    ctx.rule = ("(i) scripted batch streams (mostly-valid and boundary: all-NaN / all-rejected / empty / +-inf weights) through the real "
                "FlowProposal.populate, ImportanceFlowProposal.draw, draw_final_samples, populate_live_points (both samplers) and a grid of "
                "FlowModel.check_batch_size, each compared exactly with the Lean model; (ii) every table row's static signature vs "
                "inspect.signature, every reported attribute vs finished real objects; (iii) bounded real runs, one per option value "
                "(quick: all importance-sampler values with substitute flows + a subset of the standard sampler's; thorough: all values, "
                "two seeds, pairwise covering arrays); non-trivial = distinct scripted stream with at least one batch / distinct (sampler, "
                "options, seed) run")
    ctx.assume("log-weights in the scripted streams are integer multiples of ln 2 (or NaN/+-inf), uniforms 2^-(k+1/2): every comparison "
               "of the real loops is decided with a margin; exact ties of logsumexp against log N are dropped",
               "int(1.01 n) = floor(101 n/100) and int(1.05 n) = floor(105 n/100) (checked for the range used)",
               "a run that stays below 200x the nominal number of latent batches per pool point and below the wall-clock bound is not a hang")
    ctx.trust("hand-written loop models Model/Term.lean; tie = scripted-stream correspondence with the real methods")
    try:
        loops_tie(ctx)
        tables_tie(ctx)
        extra_findings(ctx)
        sweep(ctx)
    finally:
        rig = _STATE.pop("rig", None)
        if rig is not None:
            rig.close()
        from nessai import config
        config.livepoints.reset()
        logging.disable(logging.NOTSET)


def search(ctx):
    """a proof obligation / the tie broke and no failing input is known yet: run the whole single-option sweep and call
    every public post-sampling method on a finished sampler"""
    import logging
    import torch
    torch.set_num_threads(1)
    logging.disable(logging.CRITICAL)
    try:
        if ctx.quick:
            seed0 = 1 + 1000 * ctx.seed
            for name, lab, spec in S.all_singles(S.STD_OPTIONS):
                if f"{name}:{lab}" not in S.STD_QUICK:
                    _run(ctx, "std", [f"{name}:{lab}"], [spec], seed0)
        rig = L.FinalRig()
        try:
            s = rig.s
            # only what an option of run() reaches (public methods no option reaches are recorded as evidence elsewhere)
            calls = [("draw_posterior_samples", {}), ("draw_posterior_samples", dict(sampling_method="multinomial_resampling", n=5)),
                     ("draw_posterior_samples", dict(sampling_method="rejection_sampling")),
                     ("get_result_dictionary", {}), ("kl_divergence", dict(samples=s.samples_unit)),
                     ("draw_final_samples", dict(n_draw=10, max_its=2)), ("draw_final_samples", dict(n_post=5, max_its=2))]
            from harness.c03 import FakeFlows
            with FakeFlows(2, False, None):
                for name, kw in calls:
                    try:
                        getattr(s, name)(**kw)
                    except Exception as e:  # noqa
                        key = f"ImportanceNestedSampler.{name}:{type(e).__name__}-after-sampling"
                        if name == "draw_final_samples" and "unnormalised_weights" in str(e):
                            key = "ImportanceNestedSampler.draw_final_samples:redraw_samples-undefined-attribute"
                        ctx.oracle_fail(key, f"{name}({kw if name != 'kl_divergence' else '...'}) on a finished sampler: {type(e).__name__}: {e}",
                                        {"kind": "post-call", "method": name, "kwargs": {k: (v if not hasattr(v, 'shape') else 'array') for k, v in kw.items()}})
                    ctx.case(("post-call", name, repr(sorted(kw))), True, kind="search:post-sampling-method")
        finally:
            rig.close()
    finally:
        from nessai import config
        config.livepoints.reset()
        logging.disable(logging.NOTSET)


def replay(ctx, obj):
    import logging
    import torch
    torch.set_num_threads(1)
    logging.disable(logging.CRITICAL)
    c = obj.get("case", {})
    if "kind" not in c and isinstance(c.get("case"), dict):      # a recorded disagreement wraps the case
        c = c["case"] if "kind" in c["case"] else c
    kind = c.get("kind")
    tmp = tempfile.mkdtemp(prefix="c20r_")

    def show(impl, mo):
        print(f"real : {impl}\nmodel: {mo}")

    try:
        from nessai.samplers.importancesampler import ImportanceNestedSampler
        ImportanceNestedSampler.add_fields()
        if kind == "sweep":
            res = S.run_one(c["sampler"], c["cfg"], c["seed"], wall=90)
            _report(ctx, c["sampler"], c["labels"], c["cfg"], c["seed"], res, root_cause=c.get("root_cause", False))
            print(f"replayed run: {res['status']} {res['exc']} phase={res['phase']} {res['msg'][:200]}")
        elif kind == "populate":
            cc = c["case"]
            cc["batches"] = [(d, [tuple(it) for it in items]) for d, items in cc["batches"]]
            show(*_case_populate(ctx, cc, ctx.model([L.populate_line(cc)])[0], tmp))
        elif kind == "insdraw":
            cc = c["case"]
            cc["batches"] = [[tuple(p) for p in b] for b in cc["batches"]]
            show(*_case_insdraw(ctx, cc, ctx.model([L.insdraw_line(cc)])[0], tmp))
        elif kind == "nslive":
            cc = c["case"]
            cc["cands"] = [tuple(t) for t in cc["cands"]]
            show(*_case_nslive(ctx, cc, ctx.model([L.nslive_line(cc)])[0], tmp))
        elif kind == "inslive":
            cc = c["case"]
            cc["batches"] = [[tuple(p) for p in b] for b in cc["batches"]]
            show(*_case_inslive(ctx, cc, ctx.model([L.inslive_line(cc)])[0], tmp))
        elif kind == "cbs":
            fr = {(n_, d_): f for n_, d_, f in L.FRACTIONS}[tuple(c["frac"])]
            line, canon, case = _case_cbs(ctx, c["len"], c["b"], c["frac"][0], c["frac"][1], fr, sample=True)
            ctx.diff_model([line], [canon], [case], what="FlowModel.check_batch_size: model != real function")
            show(canon, ctx.model([line])[0])
        elif kind == "final":
            rig = L.FinalRig()
            try:
                h, d = ctx.model(list(L.final_lines(c["case"])))
                show(*_case_final(ctx, rig, c["case"], h, d))
            finally:
                rig.close()
        elif kind == "plot_extra_state":
            _STATE["rig"] = L.FinalRig()
            extra_findings(ctx)
            _STATE.pop("rig").close()
        else:
            gen(ctx)
            correspond(ctx)
    finally:
        shutil.rmtree(tmp, ignore_errors=True)
        from nessai import config
        config.livepoints.reset()
        logging.disable(logging.NOTSET)
