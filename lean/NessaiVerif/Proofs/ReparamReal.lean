import NessaiVerif.Proofs.ReparamRtb
import Mathlib.Analysis.SpecialFunctions.Log.Deriv
import Mathlib.Analysis.SpecialFunctions.Trigonometric.Deriv
import Mathlib.Analysis.SpecialFunctions.Complex.Arg
import Mathlib.Analysis.SpecialFunctions.ExpDeriv
/-
C07, stage 2 — the transcendental maps over ℝ (Mathlib).  These are statements about the mathematical functions the
NumPy code evaluates (`np.log`, `np.log1p(-x)` = log(1-x), `np.exp`, `np.arctan2(y, x)` = arg(x + iy), `%`);
the link to the float code is the numeric oracle of the check, not a proof.
-/
namespace NessaiVerif.Reparam
open Real

/-! ### logit / sigmoid, log / exp as pre- / post-rescalings (`nessai/utils/rescaling.py`) -/

/-- `logit(x, eps)`: value and log-Jacobian; `eps = 0` stands for `eps=None` (falsy: no clamping) -/
noncomputable def logitLJ (eps : ℝ) (x : ℝ) : ℝ × ℝ :=
  let x := if eps ≠ 0 then max eps (min x (1 - eps)) else x
  (log x - log (1 - x), -log x - log (1 - x))

/-- `sigmoid(x)`: value and log-Jacobian -/
noncomputable def sigmoidLJ (y : ℝ) : ℝ × ℝ :=
  let s := 1 / (1 + exp (-y))
  (s, log s + log (1 - s))

/-- `log_with_log_jacobian` -/
noncomputable def logLJ (x : ℝ) : ℝ × ℝ := (log x, -log x)
/-- `exp_with_log_jacobian` -/
noncomputable def expLJ (y : ℝ) : ℝ × ℝ := (exp y, y)

theorem sigmoid_logit (x : ℝ) (h0 : 0 < x) (h1 : x < 1) : (sigmoidLJ (logitLJ 0 x).1).1 = x := by
  have h1x : 0 < 1 - x := by linarith
  simp only [sigmoidLJ, logitLJ, ne_eq, not_true_eq_false, if_false]
  rw [neg_sub, exp_sub, exp_log h1x, exp_log h0]
  field_simp
  ring

theorem logit_sigmoid_logJ (x : ℝ) (h0 : 0 < x) (h1 : x < 1) :
    (logitLJ 0 x).2 + (sigmoidLJ (logitLJ 0 x).1).2 = 0 := by
  have hs := sigmoid_logit x h0 h1
  have : (sigmoidLJ (logitLJ 0 x).1).2 = log (sigmoidLJ (logitLJ 0 x).1).1 + log (1 - (sigmoidLJ (logitLJ 0 x).1).1) := rfl
  rw [this, hs]
  simp only [logitLJ, ne_eq, not_true_eq_false, if_false]
  ring

theorem logit_hasDerivAt (x : ℝ) (h0 : 0 < x) (h1 : x < 1) :
    HasDerivAt (fun t => (logitLJ 0 t).1) (exp (logitLJ 0 x).2) x := by
  have h1x : 0 < 1 - x := by linarith
  have hd : HasDerivAt (fun t => log t - log (1 - t)) (x⁻¹ - (-1) / (1 - x)) x := by
    have a := Real.hasDerivAt_log (ne_of_gt h0)
    have b : HasDerivAt (fun t : ℝ => 1 - t) (-1) x := by
      simpa using (hasDerivAt_id x).const_sub (1 : ℝ)
    have c := b.log (ne_of_gt h1x)
    exact a.sub c
  have hval : exp (logitLJ 0 x).2 = x⁻¹ - (-1) / (1 - x) := by
    simp only [logitLJ, ne_eq, not_true_eq_false, if_false]
    rw [show -log x - log (1 - x) = -(log x + log (1 - x)) by ring, exp_neg, exp_add, exp_log h0, exp_log h1x]
    field_simp
    ring
  rw [hval]
  have hf : (fun t => (logitLJ 0 t).1) = fun t => log t - log (1 - t) := by
    funext t; simp [logitLJ]
  rw [hf]; exact hd

/-- with a clamp (`eps` truthy) the function agrees with the unclamped one exactly on `[eps, 1 − eps]` -/
theorem logit_eps_eq (eps x : ℝ) (h0 : eps ≤ x) (h1 : x ≤ 1 - eps) : logitLJ eps x = logitLJ 0 x := by
  unfold logitLJ
  by_cases he : eps = 0
  · simp [he]
  · simp only [ne_eq, he, not_false_eq_true, if_true, not_true_eq_false, if_false]
    rw [min_eq_left h1, max_eq_right h0]

theorem exp_log_roundtrip (x : ℝ) (h0 : 0 < x) :
    (expLJ (logLJ x).1).1 = x ∧ (logLJ x).2 + (expLJ (logLJ x).1).2 = 0 := by
  simp only [expLJ, logLJ]
  exact ⟨exp_log h0, by ring⟩

theorem log_exp_roundtrip (y : ℝ) :
    (logLJ (expLJ y).1).1 = y ∧ (expLJ y).2 + (logLJ (expLJ y).1).2 = 0 := by
  simp only [expLJ, logLJ, log_exp]
  exact ⟨trivial, by ring⟩

theorem log_hasDerivAt (x : ℝ) (h0 : 0 < x) : HasDerivAt (fun t => (logLJ t).1) (exp (logLJ x).2) x := by
  have : exp (logLJ x).2 = x⁻¹ := by simp only [logLJ]; rw [exp_neg, exp_log h0]
  rw [this]; exact Real.hasDerivAt_log (ne_of_gt h0)

theorem exp_hasDerivAt (y : ℝ) : HasDerivAt (fun t => (expLJ t).1) (exp (expLJ y).2) y := Real.hasDerivAt_exp y

/-- the named hooks in the factor convention of the exact model (factor = exp(log-Jacobian)) -/
noncomputable def logHook : Hook ℝ := ⟨fun x => ((logLJ x).1, exp (logLJ x).2), fun y => ((expLJ y).1, exp (expLJ y).2)⟩
noncomputable def expHook : Hook ℝ := ⟨fun x => ((expLJ x).1, exp (expLJ x).2), fun y => ((logLJ y).1, exp (logLJ y).2)⟩
noncomputable def logitHook : Hook ℝ :=
  ⟨fun x => ((logitLJ 0 x).1, exp (logitLJ 0 x).2), fun y => ((sigmoidLJ y).1, exp (sigmoidLJ y).2)⟩

theorem logHook_lawful (x : ℝ) (h : 0 < x) : logHook.LawfulAt x := by
  obtain ⟨h1, h2⟩ := exp_log_roundtrip x h
  refine ⟨h1, ?_⟩
  simp only [logHook]
  rw [← exp_add, h2, exp_zero]

theorem expHook_lawful (x : ℝ) : expHook.LawfulAt x := by
  obtain ⟨h1, h2⟩ := log_exp_roundtrip x
  refine ⟨h1, ?_⟩
  simp only [expHook]
  rw [← exp_add, h2, exp_zero]

theorem logitHook_lawful (x : ℝ) (h0 : 0 < x) (h1 : x < 1) : logitHook.LawfulAt x := by
  refine ⟨sigmoid_logit x h0 h1, ?_⟩
  simp only [logitHook]
  rw [← exp_add, logit_sigmoid_logJ x h0 h1, exp_zero]

/-! ### `Angle`: (θ, r) ↦ (r cos(sθ), r sin(sθ)), inverse via `arctan2` -/

/-- `np.arctan2(y, x)` -/
noncomputable def arctan2 (y x : ℝ) : ℝ := Complex.arg ⟨x, y⟩

/-- NumPy `a % m` for `m > 0` -/
noncomputable def pmod (a m : ℝ) : ℝ := a - m * ⌊a / m⌋

theorem polar_complex (r φ : ℝ) :
    (⟨r * cos φ, r * sin φ⟩ : ℂ) = (r : ℂ) * (Complex.cos φ + Complex.sin φ * Complex.I) := by
  apply Complex.ext <;> simp [Complex.cos_ofReal_re, Complex.sin_ofReal_re, Complex.cos_ofReal_im, Complex.sin_ofReal_im]

theorem arctan2_polar (r φ : ℝ) (hr : 0 < r) (h0 : -π < φ) (h1 : φ ≤ π) :
    arctan2 (r * sin φ) (r * cos φ) = φ := by
  unfold arctan2
  rw [polar_complex]
  exact Complex.arg_mul_cos_add_sin_mul_I hr ⟨h0, h1⟩

theorem radius_polar (r φ : ℝ) (hr : 0 ≤ r) : sqrt ((r * cos φ) ^ 2 + (r * sin φ) ^ 2) = r := by
  have : (r * cos φ) ^ 2 + (r * sin φ) ^ 2 = r ^ 2 := by
    have := cos_sq_add_sin_sq φ
    nlinarith [this]
  rw [this, sqrt_sq hr]

theorem pmod_of_mem (a m : ℝ) (hm : 0 < m) (h0 : 0 ≤ a) (h1 : a < m) : pmod a m = a := by
  unfold pmod
  have : ⌊a / m⌋ = 0 := by
    rw [Int.floor_eq_iff]
    constructor
    · simpa using div_nonneg h0 hm.le
    · simpa using (div_lt_one hm).mpr h1
  rw [this]; simp

theorem pmod_of_neg (a m : ℝ) (hm : 0 < m) (h0 : -m ≤ a) (h1 : a < 0) : pmod a m = a + m := by
  unfold pmod
  have : ⌊a / m⌋ = -1 := by
    rw [Int.floor_eq_iff]
    constructor
    · have : -1 ≤ a / m := by rw [le_div_iff₀ hm]; linarith
      simpa using this
    · have : a / m < 0 := div_neg_of_neg_of_pos h1 hm
      simpa using this
  rw [this]; push_cast; ring

/-- the `% 2π` branch (`_zero_bound`): any angle in `[0, 2π)` is recovered -/
theorem arctan2_polar_mod (r φ : ℝ) (hr : 0 < r) (h0 : 0 ≤ φ) (h1 : φ < 2 * π) :
    pmod (arctan2 (r * sin φ) (r * cos φ)) (2 * π) = φ := by
  have hpi := pi_pos
  rcases le_or_gt φ π with h | h
  · rw [arctan2_polar r φ hr (by linarith) h]
    exact pmod_of_mem φ (2 * π) (by linarith) h0 h1
  · have e : arctan2 (r * sin φ) (r * cos φ) = φ - 2 * π := by
      have := arctan2_polar r (φ - 2 * π) hr (by linarith) (by linarith)
      rwa [sin_sub_two_pi, cos_sub_two_pi] at this
    rw [e, pmod_of_neg (φ - 2 * π) (2 * π) (by linarith) (by linarith) (by linarith)]
    ring

/-- partial derivatives of the Angle map and its Jacobian determinant: `|det| = |s|·r`, so the reported
`log r` differs from `log|det J|` by the constant `log|s|` -/
theorem angle_partials (s θ r : ℝ) :
    HasDerivAt (fun t => r * cos (s * t)) (r * (-sin (s * θ) * s)) θ ∧
    HasDerivAt (fun t => r * sin (s * t)) (r * (cos (s * θ) * s)) θ ∧
    HasDerivAt (fun ρ => ρ * cos (s * θ)) (cos (s * θ)) r ∧
    HasDerivAt (fun ρ => ρ * sin (s * θ)) (sin (s * θ)) r := by
  have hlin : HasDerivAt (fun t => s * t) s θ := by simpa using (hasDerivAt_id θ).const_mul s
  refine ⟨?_, ?_, ?_, ?_⟩
  · exact (hlin.cos).const_mul r
  · exact (hlin.sin).const_mul r
  · simpa using (hasDerivAt_id r).mul_const (cos (s * θ))
  · simpa using (hasDerivAt_id r).mul_const (sin (s * θ))

theorem angle_det (s θ r : ℝ) :
    (r * (-sin (s * θ) * s)) * sin (s * θ) - cos (s * θ) * (r * (cos (s * θ) * s)) = -(s * r) := by
  have h : (r * (-sin (s * θ) * s)) * sin (s * θ) - cos (s * θ) * (r * (cos (s * θ) * s))
      = -(s * r) * (cos (s * θ) ^ 2 + sin (s * θ) ^ 2) := by ring
  rw [h, cos_sq_add_sin_sq]; ring

/-! ### `ToCartesian`: angle = ±π·u with u = (x − p0)/(p1 − p0) ∈ [0, 1]; inverse takes `|arctan2| / π` -/

theorem toCartesian_angle (r u : ℝ) (neg : Bool) (hr : 0 < r) (h0 : 0 ≤ u) (h1 : u ≤ 1) :
    |arctan2 (r * sin ((if neg then -u else u) * π)) (r * cos ((if neg then -u else u) * π))| / π = u := by
  have hpi := pi_pos
  have hpu : 0 ≤ u * π := mul_nonneg h0 hpi.le
  have hpu1 : u * π ≤ π := by nlinarith
  cases neg
  · simp only [Bool.false_eq_true, if_false]
    rw [arctan2_polar r (u * π) hr (by linarith) hpu1, abs_of_nonneg hpu]
    field_simp
  · simp only [if_true]
    rcases eq_or_lt_of_le h1 with h | h
    · -- u = 1: the angle −π is returned as +π, the absolute value absorbs it
      subst h
      have : arctan2 (r * sin (-1 * π)) (r * cos (-1 * π)) = π := by
        have e1 : sin (-1 * π) = 0 := by simp
        have e2 : cos (-1 * π) = -1 := by simp
        unfold arctan2
        rw [e1, e2]
        have : (⟨r * -1, r * 0⟩ : ℂ) = ((-r : ℝ) : ℂ) := by apply Complex.ext <;> simp
        rw [this]
        exact Complex.arg_ofReal_of_neg (by linarith)
      rw [this, abs_of_pos hpi]; field_simp
    · have hlt : -π < -u * π := by nlinarith
      rw [arctan2_polar r (-u * π) hr hlt (by nlinarith)]
      rw [show -u * π = -(u * π) by ring, abs_neg, abs_of_nonneg hpu]
      field_simp

/-! ### `AnglePair`: spherical polar coordinates, both conventions -/

theorem anglePair_radius (r a b : ℝ) (hr : 0 ≤ r) :
    sqrt ((r * cos b * cos a) ^ 2 + (r * cos b * sin a) ^ 2 + (r * sin b) ^ 2) = r := by
  have : (r * cos b * cos a) ^ 2 + (r * cos b * sin a) ^ 2 + (r * sin b) ^ 2 = r ^ 2 := by
    have h1 := cos_sq_add_sin_sq a
    have h2 := cos_sq_add_sin_sq b
    have : (r * cos b * cos a) ^ 2 + (r * cos b * sin a) ^ 2 = (r * cos b) ^ 2 * (cos a ^ 2 + sin a ^ 2) := by ring
    rw [this, h1]; nlinarith [h2]
  rw [this, sqrt_sq hr]

theorem anglePair_radius' (r a b : ℝ) (hr : 0 ≤ r) :
    sqrt ((r * sin b * cos a) ^ 2 + (r * sin b * sin a) ^ 2 + (r * cos b) ^ 2) = r := by
  have : (r * sin b * cos a) ^ 2 + (r * sin b * sin a) ^ 2 + (r * cos b) ^ 2 = r ^ 2 := by
    have h1 := cos_sq_add_sin_sq a
    have h2 := cos_sq_add_sin_sq b
    have : (r * sin b * cos a) ^ 2 + (r * sin b * sin a) ^ 2 = (r * sin b) ^ 2 * (cos a ^ 2 + sin a ^ 2) := by ring
    rw [this, h1]; nlinarith [h2]
  rw [this, sqrt_sq hr]

/-- 3×3 determinant by cofactor expansion along the first row -/
def det3 (a b c d e f g h i : ℝ) : ℝ := a * (e * i - f * h) - b * (d * i - f * g) + c * (d * h - e * g)


/-- ra-dec convention: x = r cos δ cos α, y = r cos δ sin α, z = r sin δ; off the poles (|δ| < π/2) and off the
identified end point (α ∈ (−π, π]) both angles are recovered by the two `arctan2` calls of `_inv_ra_dec` -/
theorem anglePair_radec_angles (r α δ : ℝ) (hr : 0 < r) (hδ0 : -(π / 2) < δ) (hδ1 : δ < π / 2)
    (hα0 : -π < α) (hα1 : α ≤ π) :
    arctan2 (r * cos δ * sin α) (r * cos δ * cos α) = α ∧
    arctan2 (r * sin δ) (sqrt ((r * cos δ * cos α) ^ 2 + (r * cos δ * sin α) ^ 2)) = δ := by
  have hc : 0 < cos δ := cos_pos_of_mem_Ioo ⟨hδ0, hδ1⟩
  have hrc : 0 < r * cos δ := mul_pos hr hc
  have hpi := pi_pos
  refine ⟨arctan2_polar (r * cos δ) α hrc hα0 hα1, ?_⟩
  rw [radius_polar (r * cos δ) α hrc.le]
  exact arctan2_polar r δ hr (by linarith) (by linarith)

/-- az-zen convention: x = r sin ζ cos α, y = r sin ζ sin α, z = r cos ζ; zenith in (0, π) -/
theorem anglePair_azzen_angles (r α ζ : ℝ) (hr : 0 < r) (hζ0 : 0 < ζ) (hζ1 : ζ < π)
    (hα0 : -π < α) (hα1 : α ≤ π) :
    arctan2 (r * sin ζ * sin α) (r * sin ζ * cos α) = α ∧
    arctan2 (sqrt ((r * sin ζ * cos α) ^ 2 + (r * sin ζ * sin α) ^ 2)) (r * cos ζ) = ζ := by
  have hs : 0 < sin ζ := sin_pos_of_pos_of_lt_pi hζ0 hζ1
  have hrs : 0 < r * sin ζ := mul_pos hr hs
  have hpi := pi_pos
  refine ⟨arctan2_polar (r * sin ζ) α hrs hα0 hα1, ?_⟩
  rw [radius_polar (r * sin ζ) α hrs.le]
  exact arctan2_polar r ζ hr (by linarith) hζ1.le

/-- the nine partial derivatives of the ra-dec map in the variable order (α, δ, r) -/
theorem anglePair_radec_partials (r α δ : ℝ) :
    HasDerivAt (fun t => r * cos δ * cos t) (r * cos δ * -sin α) α ∧
    HasDerivAt (fun t => r * cos t * cos α) (r * -sin δ * cos α) δ ∧
    HasDerivAt (fun ρ => ρ * cos δ * cos α) (1 * cos δ * cos α) r ∧
    HasDerivAt (fun t => r * cos δ * sin t) (r * cos δ * cos α) α ∧
    HasDerivAt (fun t => r * cos t * sin α) (r * -sin δ * sin α) δ ∧
    HasDerivAt (fun ρ => ρ * cos δ * sin α) (1 * cos δ * sin α) r ∧
    HasDerivAt (fun _ : ℝ => r * sin δ) 0 α ∧
    HasDerivAt (fun t => r * sin t) (r * cos δ) δ ∧
    HasDerivAt (fun ρ => ρ * sin δ) (1 * sin δ) r :=
  ⟨(hasDerivAt_cos α).const_mul _, ((hasDerivAt_cos δ).const_mul r).mul_const _,
   ((hasDerivAt_id r).mul_const _).mul_const _,
   (hasDerivAt_sin α).const_mul _, ((hasDerivAt_cos δ).const_mul r).mul_const _,
   ((hasDerivAt_id r).mul_const _).mul_const _,
   hasDerivAt_const α _, (hasDerivAt_sin δ).const_mul r, (hasDerivAt_id r).mul_const _⟩

/-- determinant of that matrix: `r² cos δ` — exactly what `_ra_dec` reports (`2 log r + log cos δ`) -/
theorem anglePair_radec_det (r α δ : ℝ) :
    det3 (r * cos δ * -sin α) (r * -sin δ * cos α) (1 * cos δ * cos α)
         (r * cos δ * cos α) (r * -sin δ * sin α) (1 * cos δ * sin α)
         0 (r * cos δ) (1 * sin δ) = r ^ 2 * cos δ := by
  have h1 := cos_sq_add_sin_sq α
  have h2 := cos_sq_add_sin_sq δ
  unfold det3
  linear_combination (r ^ 2 * cos δ * cos α ^ 2 + r ^ 2 * cos δ * sin α ^ 2) * h2 + (r ^ 2 * cos δ) * h1

/-- the nine partial derivatives of the az-zen map in the variable order (α, ζ, r) -/
theorem anglePair_azzen_partials (r α ζ : ℝ) :
    HasDerivAt (fun t => r * sin ζ * cos t) (r * sin ζ * -sin α) α ∧
    HasDerivAt (fun t => r * sin t * cos α) (r * cos ζ * cos α) ζ ∧
    HasDerivAt (fun ρ => ρ * sin ζ * cos α) (1 * sin ζ * cos α) r ∧
    HasDerivAt (fun t => r * sin ζ * sin t) (r * sin ζ * cos α) α ∧
    HasDerivAt (fun t => r * sin t * sin α) (r * cos ζ * sin α) ζ ∧
    HasDerivAt (fun ρ => ρ * sin ζ * sin α) (1 * sin ζ * sin α) r ∧
    HasDerivAt (fun _ : ℝ => r * cos ζ) 0 α ∧
    HasDerivAt (fun t => r * cos t) (r * -sin ζ) ζ ∧
    HasDerivAt (fun ρ => ρ * cos ζ) (1 * cos ζ) r :=
  ⟨(hasDerivAt_cos α).const_mul _, ((hasDerivAt_sin ζ).const_mul r).mul_const _,
   ((hasDerivAt_id r).mul_const _).mul_const _,
   (hasDerivAt_sin α).const_mul _, ((hasDerivAt_sin ζ).const_mul r).mul_const _,
   ((hasDerivAt_id r).mul_const _).mul_const _,
   hasDerivAt_const α _, (hasDerivAt_cos ζ).const_mul r, (hasDerivAt_id r).mul_const _⟩

/-- determinant: `−r² sin ζ`, absolute value `r² sin ζ` as reported by `_az_zen` -/
theorem anglePair_azzen_det (r α ζ : ℝ) :
    det3 (r * sin ζ * -sin α) (r * cos ζ * cos α) (1 * sin ζ * cos α)
         (r * sin ζ * cos α) (r * cos ζ * sin α) (1 * sin ζ * sin α)
         0 (r * -sin ζ) (1 * cos ζ) = -(r ^ 2 * sin ζ) := by
  have h1 := cos_sq_add_sin_sq α
  have h2 := cos_sq_add_sin_sq ζ
  unfold det3
  linear_combination (-(r ^ 2 * sin ζ * cos α ^ 2) - r ^ 2 * sin ζ * sin α ^ 2) * h2 + (-(r ^ 2 * sin ζ)) * h1

/-! ### chain rule: the factor reported by RescaleToBounds with differentiable hooks is |derivative| -/

theorem rtbFwd_hasDerivAt (r : Rtb ℝ) (neg : Bool) (x : ℝ) (hb : r.b0 < r.b1)
    (hpre : HasDerivAt (fun t => (r.preF t).1) (r.preF x).2 x)
    (hpost : HasDerivAt (fun t => (r.postF t).1) (r.postF (rtbCore r neg (r.preF x).1).1).2
      (rtbCore r neg (r.preF x).1).1) :
    ∃ d, HasDerivAt (fun t => (rtbFwd r neg t).1) d x ∧ |d| = |(rtbFwd r neg x).2| := by
  obtain ⟨c, d0, hval, hj⟩ := rtbCore_affine_form r neg hb
  have hcore : ∀ y, HasDerivAt (fun t => (rtbCore r neg t).1) c y := by
    intro y
    have : (fun t => (rtbCore r neg t).1) = fun t => c * t + d0 := funext hval
    rw [this]
    simpa using ((hasDerivAt_id y).const_mul c).add_const d0
  have h1 : HasDerivAt ((fun t => (rtbCore r neg t).1) ∘ (fun t => (r.preF t).1)) (c * (r.preF x).2) x :=
    (hcore (r.preF x).1).comp x hpre
  have h2 : HasDerivAt ((fun t => (r.postF t).1) ∘ ((fun t => (rtbCore r neg t).1) ∘ (fun t => (r.preF t).1)))
      ((r.postF (rtbCore r neg (r.preF x).1).1).2 * (c * (r.preF x).2)) x := hpost.comp x h1
  refine ⟨_, h2, ?_⟩
  simp only [rtbFwd, hj]
  rw [abs_mul, abs_mul, abs_mul, abs_mul, abs_abs]; ring


/-! ### point-wise models of the polar classes (value(s) and log-Jacobian, as the code computes them) -/

/-- `Angle.reparameterise`: `(x', y', log_j)` for angle `θ`, radius `r`, `scale = s` -/
noncomputable def angleFwd (s θ r : ℝ) : ℝ × ℝ × ℝ := (r * cos (θ * s), r * sin (θ * s), log r)

/-- `Angle.inverse_reparameterise`: `(θ, r, log_j)`; `zeroBound` selects the `% 2π` branch -/
noncomputable def angleInv (s : ℝ) (zeroBound : Bool) (x y : ℝ) : ℝ × ℝ × ℝ :=
  (if zeroBound then pmod (arctan2 y x) (2 * π) / s else arctan2 y x / s, sqrt (x ^ 2 + y ^ 2), -log (sqrt (x ^ 2 + y ^ 2)))

theorem angle_roundtrip_aux (s θ r : ℝ) (zb : Bool) (hs : s ≠ 0) (hr : 0 < r)
    (h1 : zb = false → -π < θ * s ∧ θ * s ≤ π) (h2 : zb = true → 0 ≤ θ * s ∧ θ * s < 2 * π) :
    angleInv s zb (angleFwd s θ r).1 (angleFwd s θ r).2.1 = (θ, r, -(angleFwd s θ r).2.2) := by
  simp only [angleFwd, angleInv]
  rw [radius_polar r (θ * s) hr.le]
  cases zb
  · obtain ⟨a, b⟩ := h1 rfl
    rw [arctan2_polar r (θ * s) hr a b]
    simp only [Bool.false_eq_true, if_false]
    rw [mul_div_assoc, div_self hs, mul_one]
  · obtain ⟨a, b⟩ := h2 rfl
    rw [arctan2_polar_mod r (θ * s) hr a b]
    simp only [if_true]
    rw [mul_div_assoc, div_self hs, mul_one]

/-- `ToCartesian`: rescale to [0,1], random sign, times `scale = π`, then the Angle map -/
noncomputable def toCartFwd (p0 p1 : ℝ) (neg : Bool) (x r : ℝ) : ℝ × ℝ × ℝ :=
  let u := (x - p0) / (p1 - p0)
  let a := (if neg then -u else u) * π
  (r * cos a, r * sin a, -log (p1 - p0) + log r)

noncomputable def toCartInv (p0 p1 : ℝ) (X Y : ℝ) : ℝ × ℝ × ℝ :=
  let r := sqrt (X ^ 2 + Y ^ 2)
  ((p1 - p0) * |arctan2 Y X / π| + p0, r, -log r + log (p1 - p0))

theorem toCart_roundtrip_aux (p0 p1 x r : ℝ) (neg : Bool) (hp : p0 < p1) (hr : 0 < r) (h0 : p0 ≤ x) (h1 : x ≤ p1) :
    toCartInv p0 p1 (toCartFwd p0 p1 neg x r).1 (toCartFwd p0 p1 neg x r).2.1 = (x, r, -(toCartFwd p0 p1 neg x r).2.2) := by
  have hw : 0 < p1 - p0 := sub_pos.mpr hp
  have hu0 : 0 ≤ (x - p0) / (p1 - p0) := div_nonneg (by linarith) hw.le
  have hu1 : (x - p0) / (p1 - p0) ≤ 1 := (div_le_one hw).mpr (by linarith)
  simp only [toCartFwd, toCartInv]
  rw [radius_polar r _ hr.le, abs_div, abs_of_pos pi_pos, toCartesian_angle r _ neg hr hu0 hu1]
  refine Prod.ext ?_ (Prod.ext rfl ?_)
  · simp only; field_simp; ring
  · simp only; ring

/-- `AnglePair`, convention ra-dec -/
noncomputable def radecFwd (α δ r : ℝ) : ℝ × ℝ × ℝ × ℝ :=
  (r * cos δ * cos α, r * cos δ * sin α, r * sin δ, 2 * log r + log (cos δ))

noncomputable def radecInv (modulo : Bool) (x y z : ℝ) : ℝ × ℝ × ℝ × ℝ :=
  let r := sqrt (x ^ 2 + y ^ 2 + z ^ 2)
  let a := if modulo then pmod (arctan2 y x) (2 * π) else arctan2 y x
  let d := arctan2 z (sqrt (x ^ 2 + y ^ 2))
  (a, d, r, -2 * log r - log (cos d))

/-- `AnglePair`, convention az-zen -/
noncomputable def azzenFwd (α ζ r : ℝ) : ℝ × ℝ × ℝ × ℝ :=
  (r * sin ζ * cos α, r * sin ζ * sin α, r * cos ζ, 2 * log r + log (sin ζ))

noncomputable def azzenInv (modulo : Bool) (x y z : ℝ) : ℝ × ℝ × ℝ × ℝ :=
  let r := sqrt (x ^ 2 + y ^ 2 + z ^ 2)
  let a := if modulo then pmod (arctan2 y x) (2 * π) else arctan2 y x
  let d := arctan2 (sqrt (x ^ 2 + y ^ 2)) z
  (a, d, r, -2 * log r - log (sin d))

theorem radec_roundtrip_aux (α δ r : ℝ) (m : Bool) (hr : 0 < r) (hδ0 : -(π / 2) < δ) (hδ1 : δ < π / 2)
    (h1 : m = false → -π < α ∧ α ≤ π) (h2 : m = true → 0 ≤ α ∧ α < 2 * π) :
    radecInv m (radecFwd α δ r).1 (radecFwd α δ r).2.1 (radecFwd α δ r).2.2.1 = (α, δ, r, -(radecFwd α δ r).2.2.2) := by
  have hc : 0 < cos δ := cos_pos_of_mem_Ioo ⟨hδ0, hδ1⟩
  have hrc : 0 < r * cos δ := mul_pos hr hc
  have hpi := pi_pos
  simp only [radecFwd, radecInv]
  rw [anglePair_radius r α δ hr.le, radius_polar (r * cos δ) α hrc.le,
    arctan2_polar r δ hr (by linarith) (by linarith)]
  cases m
  · obtain ⟨a, b⟩ := h1 rfl
    rw [arctan2_polar (r * cos δ) α hrc a b]
    simp only [Bool.false_eq_true, if_false]
    refine Prod.ext rfl (Prod.ext rfl (Prod.ext rfl ?_)); simp only; ring
  · obtain ⟨a, b⟩ := h2 rfl
    rw [arctan2_polar_mod (r * cos δ) α hrc a b]
    simp only [if_true]
    refine Prod.ext rfl (Prod.ext rfl (Prod.ext rfl ?_)); simp only; ring

theorem azzen_roundtrip_aux (α ζ r : ℝ) (m : Bool) (hr : 0 < r) (hζ0 : 0 < ζ) (hζ1 : ζ < π)
    (h1 : m = false → -π < α ∧ α ≤ π) (h2 : m = true → 0 ≤ α ∧ α < 2 * π) :
    azzenInv m (azzenFwd α ζ r).1 (azzenFwd α ζ r).2.1 (azzenFwd α ζ r).2.2.1 = (α, ζ, r, -(azzenFwd α ζ r).2.2.2) := by
  have hs : 0 < sin ζ := sin_pos_of_pos_of_lt_pi hζ0 hζ1
  have hrs : 0 < r * sin ζ := mul_pos hr hs
  have hpi := pi_pos
  simp only [azzenFwd, azzenInv]
  rw [anglePair_radius' r α ζ hr.le, radius_polar (r * sin ζ) α hrs.le,
    arctan2_polar r ζ hr (by linarith) hζ1.le]
  cases m
  · obtain ⟨a, b⟩ := h1 rfl
    rw [arctan2_polar (r * sin ζ) α hrs a b]
    simp only [Bool.false_eq_true, if_false]
    refine Prod.ext rfl (Prod.ext rfl (Prod.ext rfl ?_)); simp only; ring
  · obtain ⟨a, b⟩ := h2 rfl
    rw [arctan2_polar_mod (r * sin ζ) α hrs a b]
    simp only [if_true]
    refine Prod.ext rfl (Prod.ext rfl (Prod.ext rfl ?_)); simp only; ring


/-! ### Jacobians of the model functions themselves -/

/-- `Angle`: the four partial derivatives of `angleFwd` in (θ, r) and `log|det J| = log_j + log|s|` -/
theorem angleFwd_jacobian (s θ r : ℝ) (hs : s ≠ 0) (hr : 0 < r) :
    ∃ a b c d : ℝ,
      HasDerivAt (fun t => (angleFwd s t r).1) a θ ∧ HasDerivAt (fun ρ => (angleFwd s θ ρ).1) b r ∧
      HasDerivAt (fun t => (angleFwd s t r).2.1) c θ ∧ HasDerivAt (fun ρ => (angleFwd s θ ρ).2.1) d r ∧
      log |a * d - b * c| = (angleFwd s θ r).2.2 + log |s| := by
  have hlin : HasDerivAt (fun t => t * s) s θ := by simpa using (hasDerivAt_id θ).mul_const s
  refine ⟨r * (-sin (θ * s) * s), cos (θ * s), r * (cos (θ * s) * s), sin (θ * s),
    (hlin.cos).const_mul r, ?_, (hlin.sin).const_mul r, ?_, ?_⟩
  · have := (hasDerivAt_id r).mul_const (cos (θ * s))
    simp only [id, one_mul] at this; exact this
  · have := (hasDerivAt_id r).mul_const (sin (θ * s))
    simp only [id, one_mul] at this; exact this
  · have h : r * (-sin (θ * s) * s) * sin (θ * s) - cos (θ * s) * (r * (cos (θ * s) * s))
        = -(s * r) * (cos (θ * s) ^ 2 + sin (θ * s) ^ 2) := by ring
    rw [h, cos_sq_add_sin_sq, mul_one, abs_neg, abs_mul, abs_of_pos hr,
      log_mul (abs_ne_zero.mpr hs) (ne_of_gt hr)]
    simp only [angleFwd]; ring

/-- `ToCartesian`: partial derivatives of `toCartFwd` in (x, r) and `log|det J| = log_j + log π` -/
theorem toCartFwd_jacobian (p0 p1 x r : ℝ) (neg : Bool) (hp : p0 < p1) (hr : 0 < r) :
    ∃ a b c d : ℝ,
      HasDerivAt (fun t => (toCartFwd p0 p1 neg t r).1) a x ∧ HasDerivAt (fun ρ => (toCartFwd p0 p1 neg x ρ).1) b r ∧
      HasDerivAt (fun t => (toCartFwd p0 p1 neg t r).2.1) c x ∧ HasDerivAt (fun ρ => (toCartFwd p0 p1 neg x ρ).2.1) d r ∧
      log |a * d - b * c| = (toCartFwd p0 p1 neg x r).2.2 + log π := by
  have hw : 0 < p1 - p0 := sub_pos.mpr hp
  have hpi := pi_pos
  set k : ℝ := (if neg then -1 else 1) * π / (p1 - p0) with hk
  set A : ℝ → ℝ := fun t => (if neg then -((t - p0) / (p1 - p0)) else (t - p0) / (p1 - p0)) * π with hA
  have hlin : HasDerivAt A k x := by
    have h1 : HasDerivAt (fun t : ℝ => (t - p0) / (p1 - p0)) (1 / (p1 - p0)) x := by
      simpa using ((hasDerivAt_id x).sub_const p0).div_const (p1 - p0)
    rw [hk]
    cases neg
    · exact (h1.mul_const π).congr_deriv (by simp only [Bool.false_eq_true, if_false]; ring)
    · exact ((h1.neg).mul_const π).congr_deriv (by simp only [if_true]; ring)
  refine ⟨r * (-sin (A x) * k), cos (A x), r * (cos (A x) * k), sin (A x),
    (hlin.cos).const_mul r, ?_, (hlin.sin).const_mul r, ?_, ?_⟩
  · have := (hasDerivAt_id r).mul_const (cos (A x))
    simp only [id, one_mul] at this; exact this
  · have := (hasDerivAt_id r).mul_const (sin (A x))
    simp only [id, one_mul] at this; exact this
  · have h : r * (-sin (A x) * k) * sin (A x) - cos (A x) * (r * (cos (A x) * k))
        = -(k * r) * (cos (A x) ^ 2 + sin (A x) ^ 2) := by ring
    have hkabs : |k| = π / (p1 - p0) := by
      rw [hk, abs_div, abs_mul, abs_of_pos hpi, abs_of_pos hw]
      cases neg <;> simp
    rw [h, cos_sq_add_sin_sq, mul_one, abs_neg, abs_mul, abs_of_pos hr, hkabs,
      log_mul (ne_of_gt (div_pos hpi hw)) (ne_of_gt hr), log_div (ne_of_gt hpi) (ne_of_gt hw)]
    simp only [toCartFwd]; ring

/-- `AnglePair` ra-dec: the nine partial derivatives of `radecFwd` in (α, δ, r) and `log|det J| = log_j` exactly -/
theorem radecFwd_jacobian (α δ r : ℝ) (hr : 0 < r) (hc : 0 < cos δ) :
    ∃ a b c d e f g h i : ℝ,
      HasDerivAt (fun t => (radecFwd t δ r).1) a α ∧ HasDerivAt (fun t => (radecFwd α t r).1) b δ ∧
      HasDerivAt (fun ρ => (radecFwd α δ ρ).1) c r ∧
      HasDerivAt (fun t => (radecFwd t δ r).2.1) d α ∧ HasDerivAt (fun t => (radecFwd α t r).2.1) e δ ∧
      HasDerivAt (fun ρ => (radecFwd α δ ρ).2.1) f r ∧
      HasDerivAt (fun t => (radecFwd t δ r).2.2.1) g α ∧ HasDerivAt (fun t => (radecFwd α t r).2.2.1) h δ ∧
      HasDerivAt (fun ρ => (radecFwd α δ ρ).2.2.1) i r ∧
      log |det3 a b c d e f g h i| = (radecFwd α δ r).2.2.2 := by
  obtain ⟨h1, h2, h3, h4, h5, h6, h7, h8, h9⟩ := anglePair_radec_partials r α δ
  refine ⟨_, _, _, _, _, _, _, _, _, h1, h2, h3, h4, h5, h6, h7, h8, h9, ?_⟩
  rw [anglePair_radec_det, abs_of_pos (mul_pos (pow_pos hr 2) hc),
    log_mul (ne_of_gt (pow_pos hr 2)) (ne_of_gt hc), log_pow]
  simp only [radecFwd]; push_cast; ring

/-- `AnglePair` az-zen: the nine partial derivatives of `azzenFwd` in (α, ζ, r) and `log|det J| = log_j` exactly -/
theorem azzenFwd_jacobian (α ζ r : ℝ) (hr : 0 < r) (hs : 0 < sin ζ) :
    ∃ a b c d e f g h i : ℝ,
      HasDerivAt (fun t => (azzenFwd t ζ r).1) a α ∧ HasDerivAt (fun t => (azzenFwd α t r).1) b ζ ∧
      HasDerivAt (fun ρ => (azzenFwd α ζ ρ).1) c r ∧
      HasDerivAt (fun t => (azzenFwd t ζ r).2.1) d α ∧ HasDerivAt (fun t => (azzenFwd α t r).2.1) e ζ ∧
      HasDerivAt (fun ρ => (azzenFwd α ζ ρ).2.1) f r ∧
      HasDerivAt (fun t => (azzenFwd t ζ r).2.2.1) g α ∧ HasDerivAt (fun t => (azzenFwd α t r).2.2.1) h ζ ∧
      HasDerivAt (fun ρ => (azzenFwd α ζ ρ).2.2.1) i r ∧
      log |det3 a b c d e f g h i| = (azzenFwd α ζ r).2.2.2 := by
  obtain ⟨h1, h2, h3, h4, h5, h6, h7, h8, h9⟩ := anglePair_azzen_partials r α ζ
  refine ⟨_, _, _, _, _, _, _, _, _, h1, h2, h3, h4, h5, h6, h7, h8, h9, ?_⟩
  rw [anglePair_azzen_det, abs_neg, abs_of_pos (mul_pos (pow_pos hr 2) hs),
    log_mul (ne_of_gt (pow_pos hr 2)) (ne_of_gt hs), log_pow]
  simp only [azzenFwd]; push_cast; ring

/-! ### the registered `logit` and `log-rescale` objects end to end -/

/-- state of `get_reparameterisation("logit")` / `("log-rescale")` for one parameter: rescale bounds [0, 1],
`update_bounds=False`, named post-rescaling; `off` = the `offset` option -/
noncomputable def namedPostObject (h : Hook ℝ) (p0 p1 : ℝ) (off : Bool) : Rtb ℝ :=
  rtbMk p0 p1 (some (0, 1)) none false off false none (some h) true false

theorem namedPostObject_core (h : Hook ℝ) (p0 p1 x : ℝ) (off neg : Bool) (hp : p0 < p1) :
    (rtbCore (namedPostObject h p0 p1 off) neg x).1 = (x - p0) / (p1 - p0) := by
  have hw : p1 - p0 ≠ 0 := ne_of_gt (sub_pos.mpr hp)
  have hpt : ptp (0 : ℝ) 1 = 1 := by rw [ptp_eq]; norm_num
  show ptp (0 : ℝ) 1 * ((x - (if off = true then p0 + ptp p0 p1 / two else 0)
        - (p0 - (if off = true then p0 + ptp p0 p1 / two else 0)))
      / ((p1 - (if off = true then p0 + ptp p0 p1 / two else 0))
        - (p0 - (if off = true then p0 + ptp p0 p1 / two else 0)))) + 0 = (x - p0) / (p1 - p0)
  generalize (if off = true then p0 + ptp p0 p1 / two else 0) = o
  rw [hpt, show x - o - (p0 - o) = x - p0 by ring, show p1 - o - (p0 - o) = p1 - p0 by ring]
  ring

theorem namedPostObject_facts (h : Hook ℝ) (p0 p1 : ℝ) (off : Bool) (hp : p0 < p1) :
    let r := namedPostObject h p0 p1 off
    r.b0 < r.b1 ∧ r.FactorOK ∧ r.pre = none ∧ r.post = some h ∧ r.inversion = none := by
  refine ⟨?_, ?_, rfl, rfl, rfl⟩
  · cases off <;> simp [namedPostObject, rtbMk] <;> linarith
  · intro _; simp [namedPostObject, rtbMk]

/-- the registered `logit` object: on the open prior interval the round trip holds, both Jacobian factors are positive
and reciprocal, and the forward map is differentiable with |derivative| = reported factor -/
theorem logitObject_lawful (p0 p1 x : ℝ) (off neg : Bool) (hp : p0 < p1) (h0 : p0 < x) (h1 : x < p1) :
    let r := namedPostObject logitHook p0 p1 off
    (ScalarLawfulAt (rtbFwd r neg) (rtbInv r) x ∧ 0 < (rtbFwd r neg x).2 ∧ 0 < (rtbInv r (rtbFwd r neg x).1).2) ∧
    ∃ d, HasDerivAt (fun t => (rtbFwd r neg t).1) d x ∧ |d| = (rtbFwd r neg x).2 := by
  intro r
  obtain ⟨hb, hf, hpre, hpost, hinv⟩ := namedPostObject_facts logitHook p0 p1 off hp
  have hw : 0 < p1 - p0 := sub_pos.mpr hp
  have hpreF : ∀ t, r.preF t = (t, 1) := by intro t; unfold Rtb.preF; rw [hpre]
  have hz : (rtbCore r neg (r.preF x).1).1 = (x - p0) / (p1 - p0) := by
    rw [hpreF]; exact namedPostObject_core logitHook p0 p1 x off neg hp
  have hz0 : 0 < (x - p0) / (p1 - p0) := div_pos (by linarith) hw
  have hz1 : (x - p0) / (p1 - p0) < 1 := (div_lt_one hw).mpr (by linarith)
  have hpostF : r.postF = logitHook.fwd := by unfold Rtb.postF; rw [hpost]
  have hpostI : r.postI = logitHook.inv := by unfold Rtb.postI; rw [hpost]
  have hpreI : ∀ t, r.preI t = (t, 1) := by intro t; unfold Rtb.preI; rw [hpre]
  have hL := rtb_lawful_pos r neg x hb hf (fun h => by
      exfalso; rcases h with ⟨hs, _, _⟩; rw [hinv] at hs; simp at hs)
    ⟨by unfold ScalarLawfulAt; simp [hpreF, hpreI], by
      rw [hz, hpostF, hpostI]; exact logitHook_lawful _ hz0 hz1⟩
    ⟨by rw [hpreF]; exact one_pos, by rw [hpostF]; simp only [logitHook]; exact exp_pos _⟩
  refine ⟨hL, ?_⟩
  obtain ⟨d, hd, habs⟩ := rtbFwd_hasDerivAt r neg x hb
    (by
      have : (fun t => (r.preF t).1) = fun t => t := by funext t; rw [hpreF]
      rw [this, hpreF]; exact hasDerivAt_id x)
    (by rw [hz, hpostF]; exact logit_hasDerivAt _ hz0 hz1)
  exact ⟨d, hd, by rw [habs, abs_of_pos hL.2.1]⟩

/-- the registered `log-rescale` object: the same on `(p0, p1]` — the upper bound, where the map is finite, included -/
theorem logRescaleObject_lawful (p0 p1 x : ℝ) (off neg : Bool) (hp : p0 < p1) (h0 : p0 < x) :
    let r := namedPostObject logHook p0 p1 off
    (ScalarLawfulAt (rtbFwd r neg) (rtbInv r) x ∧ 0 < (rtbFwd r neg x).2 ∧ 0 < (rtbInv r (rtbFwd r neg x).1).2) ∧
    ∃ d, HasDerivAt (fun t => (rtbFwd r neg t).1) d x ∧ |d| = (rtbFwd r neg x).2 := by
  intro r
  obtain ⟨hb, hf, hpre, hpost, hinv⟩ := namedPostObject_facts logHook p0 p1 off hp
  have hw : 0 < p1 - p0 := sub_pos.mpr hp
  have hpreF : ∀ t, r.preF t = (t, 1) := by intro t; unfold Rtb.preF; rw [hpre]
  have hz : (rtbCore r neg (r.preF x).1).1 = (x - p0) / (p1 - p0) := by
    rw [hpreF]; exact namedPostObject_core logHook p0 p1 x off neg hp
  have hz0 : 0 < (x - p0) / (p1 - p0) := div_pos (by linarith) hw
  have hpostF : r.postF = logHook.fwd := by unfold Rtb.postF; rw [hpost]
  have hpostI : r.postI = logHook.inv := by unfold Rtb.postI; rw [hpost]
  have hpreI : ∀ t, r.preI t = (t, 1) := by intro t; unfold Rtb.preI; rw [hpre]
  have hL := rtb_lawful_pos r neg x hb hf (fun h => by
      exfalso; rcases h with ⟨hs, _, _⟩; rw [hinv] at hs; simp at hs)
    ⟨by unfold ScalarLawfulAt; simp [hpreF, hpreI], by
      rw [hz, hpostF, hpostI]; exact logHook_lawful _ hz0⟩
    ⟨by rw [hpreF]; exact one_pos, by rw [hpostF]; simp only [logHook]; exact exp_pos _⟩
  refine ⟨hL, ?_⟩
  obtain ⟨d, hd, habs⟩ := rtbFwd_hasDerivAt r neg x hb
    (by
      have : (fun t => (r.preF t).1) = fun t => t := by funext t; rw [hpreF]
      rw [this, hpreF]; exact hasDerivAt_id x)
    (by rw [hz, hpostF]; exact log_hasDerivAt _ hz0)
  exact ⟨d, hd, by rw [habs, abs_of_pos hL.2.1]⟩

end NessaiVerif.Reparam
